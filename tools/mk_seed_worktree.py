"""Create a scratch worktree of /repo HEAD for a seeding sub-agent, holding only the text of one property.

  tools/mk_seed_worktree.py <dir> <Cnn>
"""
import json, os, subprocess, sys
wt, pid = sys.argv[1:3]
subprocess.check_call(['git', '-C', '/repo', 'worktree', 'add', '--detach', wt, 'HEAD'], stdout=subprocess.DEVNULL, stderr=subprocess.DEVNULL)
for l in open(os.path.join(os.path.dirname(os.path.dirname(os.path.abspath(__file__))), 'properties.jsonl')):
    d = json.loads(l)
    if d['id'] == pid:
        break
else:
    raise SystemExit('no such property')
q = d['quantifier']
txt = 'Property %s: %s\n\nStatement:\n%s\n\nQuantifier (%s):\n%s\n\nWhy the existing tests cannot settle it:\n%s\n\nCode anchors (files): %s\n' % (
    d['id'], d['title'], d['statement'], ', '.join(q['over']), q['text'], d['why_tests_cant'], ', '.join(d['anchors']['files']))
mech = d['anchors'].get('mechanisms') or d['anchors'].get('mechanism') or []
if mech:
    txt += 'Mechanisms meant to make it hold:\n'
    for m in mech:
        txt += '- %s\n' % (m if isinstance(m, str) else '%s (%s)' % (m.get('name', ''), m.get('where', '')))
open(os.path.join(wt, 'PROPERTY.txt'), 'w').write(txt)
print(wt)
