"""Refresh the generated tables inside DESIGN.md (between <!-- X_BEGIN --> / <!-- X_END --> markers)."""
import os, re, subprocess, sys
V = os.path.dirname(os.path.dirname(os.path.abspath(__file__)))
p = os.path.join(V, 'DESIGN.md')
s = open(p).read()
def put(name, text):
    global s
    b, e = '<!-- %s_BEGIN -->' % name, '<!-- %s_END -->' % name
    if b not in s:
        s = s.replace('%s_PLACEHOLDER' % name, b + '\n' + e)
    s = re.sub(re.escape(b) + '.*?' + re.escape(e), lambda m: b + '\n' + text.strip() + '\n' + e, s, flags=re.S)
put('SEEDED_TABLE', subprocess.check_output([sys.executable, os.path.join(V, 'tools', 'seeded_table.py')], text=True))
th = os.path.join(V, 'tools', 'thorough_table.md')
if os.path.exists(th):
    put('THOROUGH', open(th).read())
open(p, 'w').write(s)
