import json,sys
for p in sys.argv[1:]:
    r=json.load(open(p))
    print(r['symptom']); print('  ',r['case'][:900]); print('  ',r['detail'][:600]); print('  ', [f for f in r['features'] if not f.startswith('type:')])
