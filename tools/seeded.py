"""Run the checks against the seeded property-breaking changes kept under /verif/seeded/<id>/.

  tools/seeded.py [--all-checks] [--tier quick|thorough] [ids...]

For each seeded change: a scratch worktree of /repo's HEAD is created under /tmp, patch.diff applied, the
repository's own tests run there (they must still pass), the demonstration run (it must fail), then the check
of the property the change breaks is run with VERIF_REPO pointing at the worktree (expected: exit 1 with a
VIOLATION line).  The worktree is removed afterwards.  Results go to seeded/RESULTS.json."""
import json
import os
import re
import shutil
import subprocess
import sys
import time

VERIF = os.path.dirname(os.path.dirname(os.path.abspath(__file__)))
PY = '/venv/bin/python'


def sh(cmd, cwd=None, env=None, timeout=3600):
    p = subprocess.run(cmd, cwd=cwd, env=env, shell=isinstance(cmd, str), capture_output=True, text=True, timeout=timeout)
    return p.returncode, p.stdout + p.stderr


def run_one(sid, all_checks=False, tier='quick', seeds=()):
    d = os.path.join(VERIF, 'seeded', sid)
    meta = json.load(open(os.path.join(d, 'meta.json')))
    wt = '/tmp/pyasn1-verif-seed-%s' % sid
    sh(['git', '-C', '/repo', 'worktree', 'remove', '--force', wt])
    shutil.rmtree(wt, ignore_errors=True)
    rc, out = sh(['git', '-C', '/repo', 'worktree', 'add', '--detach', wt, 'HEAD'])
    if rc:
        return {'id': sid, 'error': 'worktree: ' + out[-300:]}
    result = {'id': sid, 'property': meta['property']}
    try:
        # the demonstration on the UNCHANGED tree first: it has to pass there
        demo = meta.get('demo', 'demo.py')
        src = open(os.path.join(d, demo)).read()
        src = re.sub(r'/tmp/wt\d*-C\d\d[a-z]?', wt, src)      # demonstrations written in a sub-agent's own worktree
        open(os.path.join(wt, 'demo_seeded.py'), 'w').write(src)
        rc, out = sh([PY, 'demo_seeded.py'], cwd=wt, timeout=600)
        result['demo_passes_without_change'] = rc == 0
        rc, out = sh(['git', 'apply', os.path.join(d, 'patch.diff')], cwd=wt)
        if rc:
            result['error'] = 'patch does not apply: ' + out[-300:]
            return result
        rc, out = sh([PY, '-m', 'pytest', '-q', '-p', 'no:cacheprovider', '-x'], cwd=wt)
        result['repo_tests_pass'] = rc == 0
        result['repo_tests_tail'] = out.strip().splitlines()[-1] if out.strip() else ''
        rc, out = sh([PY, 'demo_seeded.py'], cwd=wt, timeout=600)
        result['demo_fails_with_change'] = rc != 0
        props = [meta['property']]
        if all_checks:
            props = ['C%02d' % i for i in range(1, 21)]
        env = dict(os.environ, VERIF_REPO=wt, VERIF_EVIDENCE_DIR='/tmp/pyasn1-verif-seed-evidence')
        result['checks'] = {}
        for p in props:
            t0 = time.time()
            rc, out = sh([os.path.join(VERIF, 'check'), p, tier], cwd=VERIF, env=env, timeout=7200)
            viol = [l for l in out.splitlines() if l.startswith('VIOLATION')]
            result['checks'][p] = {'exit': rc, 'violations': len(viol), 'first': viol[0][:300] if viol else '',
                                   'seconds': round(time.time() - t0, 1)}
        own = result['checks'][meta['property']]
        result['caught'] = own['exit'] == 1 and own['violations'] > 0
        # the same check under other seeds: is the detection luck?
        result['caught_by_seed'] = {'0': result['caught']}
        for sd in seeds:
            env2 = dict(env, VERIF_SEED=str(sd))
            rc, out = sh([os.path.join(VERIF, 'check'), meta['property'], tier], cwd=VERIF, env=env2, timeout=7200)
            viol = [l for l in out.splitlines() if l.startswith('VIOLATION')]
            result['caught_by_seed'][str(sd)] = rc == 1 and len(viol) > 0
    finally:
        sh(['git', '-C', '/repo', 'worktree', 'remove', '--force', wt])
        shutil.rmtree(wt, ignore_errors=True)
        # evidence files must describe the unchanged tree: they are rewritten by the next ordinary run
    return result


def main(argv):
    all_checks = '--all-checks' in argv
    tier = 'thorough' if '--tier' in argv and argv[argv.index('--tier') + 1] == 'thorough' else 'quick'
    seeds = ()
    if '--seeds' in argv:
        i = argv.index('--seeds')
        seeds = tuple(int(x) for x in argv[i + 1].split(','))
        argv = argv[:i] + argv[i + 2:]
    ids = [a for a in argv if not a.startswith('--') and a not in ('quick', 'thorough')]
    root = os.path.join(VERIF, 'seeded')
    if not ids:
        ids = sorted(x for x in os.listdir(root) if os.path.isdir(os.path.join(root, x)))
    path = os.path.join(root, 'RESULTS.json')
    results = {}
    if os.path.exists(path):
        results = json.load(open(path))
    for sid in ids:
        r = run_one(sid, all_checks, tier, seeds)
        results[sid] = r
        print('%-28s %-4s tests_pass=%s demo_ok_without=%s demo_fails=%s caught=%s seeds=%s %s' % (
            sid, r.get('property'), r.get('repo_tests_pass'), r.get('demo_passes_without_change'), r.get('demo_fails_with_change'), r.get('caught'),
            ''.join('%s:%s ' % (k, 'Y' if v else 'N') for k, v in sorted(r.get('caught_by_seed', {}).items())),
            r.get('error', '') or (r.get('checks', {}).get(r.get('property'), {}).get('first', '')[:120])))
        if os.path.exists(path):
            # merge: another run may have written other entries meanwhile
            try:
                disk = json.load(open(path))
            except Exception:
                disk = {}
            disk[sid] = r
            results = disk
        json.dump(results, open(path, 'w'), indent=1, sort_keys=True)
    return 0


if __name__ == '__main__':
    sys.exit(main(sys.argv[1:]))
