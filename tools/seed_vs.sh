#!/bin/sh
# tools/seed_vs.sh <seeded-id> <Cnn> [<Cnn>...]  -- run the quick tier of the named checks against one seeded change (scratch worktree, removed afterwards)
sid=$1; shift
wt=/tmp/pyasn1-verif-vs-$sid
git -C /repo worktree remove --force $wt >/dev/null 2>&1; rm -rf $wt
git -C /repo worktree add --detach $wt HEAD >/dev/null 2>&1 || exit 2
(cd $wt && git apply /verif/seeded/$sid/patch.diff) || { git -C /repo worktree remove --force $wt; exit 2; }
for p in "$@"; do
  VERIF_REPO=$wt VERIF_EVIDENCE_DIR=/tmp/pyasn1-verif-seed-evidence /verif/check $p ${TIER:-quick} 2>&1 | grep -v "^KNOWN-FINDING\|WARNING" | cut -c1-260 | awk '/^VIOLATION/{split($0,a,"symptom="); c[a[2]]++; next} {print} END{for(k in c) print "   ",c[k],"x",k}'
done
git -C /repo worktree remove --force $wt; rm -rf $wt
