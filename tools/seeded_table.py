"""Markdown table of the seeded changes and what caught them (from seeded/RESULTS.json and the meta files)."""
import json, os
root = os.path.join(os.path.dirname(os.path.dirname(os.path.abspath(__file__))), 'seeded')
res = json.load(open(os.path.join(root, 'RESULTS.json')))
print('| seeded change | breaks | site | needs, in order to manifest | repo tests | demo fails | caught by (tier, first symptom) |')
print('|---|---|---|---|---|---|---|')
for sid in sorted(res):
    r = res[sid]
    d = os.path.join(root, sid)
    if not os.path.isdir(d):
        continue
    meta = json.load(open(os.path.join(d, 'meta.json')))
    site = ''
    for l in open(os.path.join(d, 'patch.diff')):
        if l.startswith('+++ '):
            site = l.split('pyasn1/', 1)[-1].strip()
        if l.startswith('@@') and '@@' in l[2:]:
            site += ' ' + l.split('@@')[-1].strip().replace('class ', '').replace('def ', '').split('(')[0]
            break
    own = r.get('checks', {}).get(r.get('property'), {})
    sym = own.get('first', '').split('symptom=')[-1]
    tier = meta.get('caught_tier', 'quick')
    seeds = r.get('caught_by_seed', {})
    caught = ('%s %s: `%s`' % (r['property'], tier, sym[:70])) if r.get('caught') else '**missed**'
    if r.get('caught') and seeds and not all(seeds.values()):
        caught += ' (seeds caught: %s)' % ', '.join(k for k, v in sorted(seeds.items()) if v)
    if r.get('demo_passes_without_change') is False:
        caught += ' (demonstration does not pass on the unchanged tree)'
    if meta.get('note'):
        caught += ' (note: %s)' % meta['note']
    if meta.get('obsolete'):
        caught = 'obsolete: ' + meta['obsolete']
    if meta.get('strengthened'):
        caught += ' (after: %s)' % meta['strengthened']
    print('| %s | %s | `%s` | %s | %s | %s | %s |' % (sid, r.get('property'), site, meta['needs_to_manifest'].replace('|', '/'),
          'pass' if r.get('repo_tests_pass') else 'FAIL', 'yes' if r.get('demo_fails_with_change') else 'NO', caught))
