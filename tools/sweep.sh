#!/bin/sh
# tools/sweep.sh [tier] [seed]  -- every check once, one summary line each (meant for `vp run -- sh tools/sweep.sh thorough 0`)
tier=${1:-thorough}; seed=${2:-0}
cd "$(dirname "$0")/.." || exit 2
sh setup.sh >/dev/null 2>&1
for i in 01 02 03 04 05 06 07 08 09 10 11 12 13 14 15 16 17 18 19 20; do
  t0=$(date +%s)
  VERIF_SEED=$seed ./check C$i $tier > sweep_C$i.log 2>&1
  rc=$?
  t1=$(date +%s)
  echo "C$i exit=$rc wall=$((t1-t0))s $(grep -c '^VIOLATION' sweep_C$i.log) violations | $(grep "^C$i $tier" sweep_C$i.log | tail -1)"
  grep '^VIOLATION\|^INCONCLUSIVE' sweep_C$i.log | head -5
done
