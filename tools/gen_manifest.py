"""Regenerate MANIFEST.json from the property modules present under vlib/props."""
import importlib, json, os, sys
sys.path.insert(0, '/verif')
from vlib import harness as H
H.setup_paths()
props = json.load(open('/verif/tools/manifest_meta.json'))
checks = []
na = []
for pid in ['C%02d' % i for i in range(1, 21)]:
    meta = props.get(pid, {})
    path = '/verif/vlib/props/%s.py' % pid.lower()
    if not os.path.exists(path) or meta.get('not_applicable'):
        na.append({'property_id': pid, 'reason': meta.get('not_applicable') or 'check not built yet (work in progress)'})
        continue
    mod = importlib.import_module('vlib.props.' + pid.lower())
    checks.append({
        'property_id': pid,
        'quick_cmd': './check %s quick' % pid,
        'thorough_cmd': './check %s thorough' % pid,
        'evidence_file': '/verif/evidence/%s.json' % pid,
        'replay_cmd_template': './check %s --replay {path}' % pid,
        'engine': 'vlib',
        'level_claimed': {'category': mod.LEVEL, 'text': meta.get('text', ''), 'design_ref': 'DESIGN.md section 4/' + pid},
        'level_note': meta.get('note', ''),
        'technique': mod.TECHNIQUE,
    })
m = {
    'version': 1,
    'setup_cmd': 'sh setup.sh',
    'hooks': {
        'guard': 'PYASN1_VERIF',
        'enable': 'no source hooks: all monitors attach from outside (stream doubles, wrapped entry points, sys.monitoring); PYASN1_VERIF is reserved should a guarded hook become necessary',
        'baseline_off_cmd': 'cd /repo && /venv/bin/python -m pytest -ra -q -p no:cacheprovider --timeout=900 --continue-on-collection-errors',
        'source_commits': [],
        'add_only': True,
    },
    'engines': [{'name': 'vlib', 'path': '/verif/vlib', 'serves_properties': [c['property_id'] for c in checks],
                 'kind_free_text': 'pure-Python runtime-monitoring harness: generated hostile workloads, independent X.690 reference oracle, recorded stream histories, exception/termination taxonomies; 16 worker subprocesses'}],
    'checks': checks,
    'notes': 'All verdicts are about executions actually produced (held on K executions), never proofs. Genuine defects found are either repaired by fix: commits in /repo or listed in known_findings.json.',
    'not_applicable': na,
}
json.dump(m, open('/verif/MANIFEST.json', 'w'), indent=1)
print(len(checks), 'checks;', len(na), 'not claimed')
