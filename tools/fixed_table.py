"""Which properties each fix: commit in /repo repairs, and what failed (keyed by commit subject)."""
FIXED_BY_SUBJECT = {
 "fix: minimal two's complement octets for negative powers of two": [
   ('C03', 'DER INTEGER -2**(8k-1) carried a redundant leading ff octet (e.g. -128 -> 02 02 ff 80)')],
 "fix: chunk character strings by octets, not by characters": [
   ('C01', 'BER encode with maxChunkSize smaller than a multi-octet character recursed until RecursionError')],
 "fix: decode OCTET STRING fragments of constructed character strings": [
   ('C01', 'chunked character/useful strings could not be decoded back (fragments carry the OCTET STRING tag)'),
   ('C09', 'segmented character string forms were rejected')],
 "fix: indefinite-length ANY decodes into an Any object holding the complete TLV": [
   ('C01', 'top-level decode of an indefinite-length ANY returned bytes; untagged ANY lost its closing end-of-octets'),
   ('C18', 'ANY field did not hold the complete indefinite-length TLV')],
 "fix: keep integer mantissa exact when normalising base-10 REAL": [
   ('C01', 'base-10 REAL with mantissa beyond 2**53 lost digits on construction/decoding')],
 "fix: decode character-form REAL exactly instead of through float": [
   ('C01', 'decimal REAL decoded through float(): 7E-2 came back as 7000000000000001E-15')],
 "fix: untagged CHOICE with an empty indefinite-length alternative": [
   ('C01', 'CHOICE whose chosen alternative is an empty indefinite-length container decoded into a valueless CHOICE')],
 "fix: order SET components by their outermost tag in CER/DER": [
   ('C03', 'DER/CER SET members ordered by innermost instead of outermost tag')],
 "fix: CER BIT STRING fragments hold 1000 contents octets, unused-bits octet included": [
   ('C03', 'CER BIT STRING fragments had 1001 contents octets')],
 "fix: indefinite-length SET members after the one declared last": [
   ('C02', 'CER SET whose member declared last sorts first could not be decoded (spec dropped to None)'),
   ('C09', 'indefinite-length SET with permuted members')],
 "fix: nested constructed fragments of BIT STRING and OCTET STRING": [
   ('C09', 'nested (constructed inside constructed) string segments decoded with inner headers in the value / Trailing bits overflow')],
 "fix: CachingStreamWrapper on a non-blocking stream that has no data yet": [
   ('C05', 'non-seekable non-blocking substrate: TypeError (None written into the cache) instead of underrun'),
   ('C06', 'open truncated non-seekable stream raised TypeError instead of reporting underrun')],
 "fix: 'no data yet' is not the end of a non-blocking stream": [
   ('C05', 'a None read between two encodings was taken for end of stream: bare None yielded, remaining objects lost'),
   ('C06', 'open truncated stream: iteration yielded None / stopped instead of reporting underrun')],
 "fix: underrun while reading the end-of-octets of an explicit tag": [
   ('C05', 'explicitly tagged value in indefinite form: an underrun on the closing end-of-octets replaced the value')],
 "fix: truncation right after a BIT STRING length is an underrun, not a format error": [
   ('C06', 'prefix ending right after a BIT STRING length octet raised PyAsn1Error(Empty BIT STRING substrate)')],
 "fix: CHOICE in indefinite form treated a forwarded underrun as the alternative": [
   ('C05', 'resumed decode of an indefinite-length CHOICE leaked AttributeError'),
   ('C06', 'open truncated stream inside an indefinite-length CHOICE leaked AttributeError')],
 "fix: empty SEQUENCE/SET decoded without a schema": [
   ('C08', 'decode(b"0\\x00") returned (None, b""); nested empty containers leaked AttributeError'),
   ('C16', 'empty SEQUENCE/SET decoded without a schema came back as None')],
 "fix: empty indefinite-length explicit tag returned the NoValue sentinel": [
   ('C08', 'a4 80 00 00 decoded into the NoValue placeholder instead of raising')],
 "fix: length field beyond addressable size leaked OverflowError": [
   ('C08', 'long-form length >= 2**63 leaked OverflowError from stream.read()')],
 "fix: zero-length fragment of a constructed BIT STRING leaked IndexError": [
   ('C08', '23 80 03 00 00 00 leaked IndexError')],
 "fix: BIT STRING with unused bits but no data octets leaked ValueError": [
   ('C08', '03 01 05 leaked ValueError (negative bit length)')],
 "fix: excess components in an indefinite-length SEQUENCE leaked IndexError": [
   ('C08', 'indefinite-length SEQUENCE with more components than declared leaked IndexError')],
 "fix: empty explicitly tagged CHOICE in indefinite form returned a schema object": [
   ('C08', '61 80 00 00 decoded with a tagged CHOICE type returned a valueless CHOICE')],
 "fix: CER/DER strict payload decoders were bypassed whenever a schema is given": [
   ('C15', 'with a guiding type DER/CER accepted BOOLEAN 01, DER accepted segmented strings; DER accepted segmented character strings always')],
 "fix: decoders check SIZE and WITH COMPONENTS constraints of constructed types": [
   ('C10', 'SEQUENCE OF/SET OF SIZE and SEQUENCE/SET WITH COMPONENTS constraints were not checked on decode'),
   ('C14', 'decoding yielded constructed values their constraints reject')],
 "fix: BIT STRING with a SIZE constraint could not be encoded": [
   ('C10', 'accepted SIZE-constrained BIT STRING could not be re-encoded (padding built a value of the constrained type)'),
   ('C14', 'encoder refused a valid SIZE-constrained BIT STRING')],
 "fix: CER/DER encoding of an empty time string leaked IndexError": [
   ('C10', 'CER/DER re-encoding of an accepted empty time value leaked IndexError'),
   ('C20', 'CER/DER encoder leaked IndexError on an empty time string')],
 "fix: fromDateTime() wrote a wrong UTC offset": [
   ('C20', 'fromDateTime lost the sign of the UTC offset and wrote seconds as minutes')],
 "fix: fromDateTime() for years below 1000": [
   ('C20', 'fromDateTime produced unparseable strings for years below 1000 (strftime %Y not zero-padded)')],
 "fix: encoding a Python mapping that leaves OPTIONAL/DEFAULT members out": [
   ('C17', 'encode(mapping, asn1Spec=T) refused a mapping that omits an OPTIONAL or DEFAULT member')],
 "fix: native decoder turned empty lists and mappings into schema objects": [
   ('C17', 'empty SEQUENCE OF / field-less SEQUENCE did not survive the native round trip')],
 "fix: BitString.asBinary() of an empty bit string": [
   ('C17', 'native codec turned the empty BIT STRING into one zero bit')],
 "fix: DEFAULT omission for bare Python values compared type-blind": [
   ('C17', 'bare Python members equal to a NULL/OID/REAL/character DEFAULT were still written')],
 "fix: chunked encoding of bare octets kept the schema's tags on every fragment": [
   ('C17', 'CER of a bytes value > 1000 octets with a tagged asn1Spec differed from the value object encoding')],
 "fix: DER SET ordering of a nested untagged CHOICE given as a Python mapping": [
   ('C17', 'DER SET member order differed between a Python mapping and the value object for nested untagged CHOICE members')],
 "fix: chunked encoding of a bare BIT STRING value kept the schema's tags on every fragment": [
   ('C17', 'CER of a long bit string given as Python value with a tagged asn1Spec differed from the value object encoding')],
 "fix: CER/DER SET with a SET OF/SEQUENCE OF open-type member lost the ANY tags": [
   ('C18', 'CER/DER SET { ... blob SET OF [n] ANY DEFINED BY ... } wrote the typed elements without the ANY tag')],
 "fix: iterating a CHOICE with no alternative chosen raised RuntimeError": [
   ('C19', 'list()/for over an empty CHOICE raised RuntimeError (StopIteration inside a generator)')],
 "fix: SequenceOf/SetOf.reverse() raised AttributeError": [
   ('C19', 'reverse() raised AttributeError')],
 "fix: clone(cloneValueFlag=True) of schema and of empty constructed objects": [
   ('C19', 'deep clone of a schema SEQUENCE OF raised PyAsn1Error; deep clone of an empty value was a schema object'),
   ('C04', 'clone(cloneValueFlag=True) raised after a read had left a valueless OPTIONAL SEQUENCE OF placeholder')],
 "fix: SEQUENCE/SET/CHOICE objects after reset()": [
   ('C19', 'len()/prettyPrint() of a reset SEQUENCE/SET raised; a reset CHOICE kept its alternative index')],
 "fix: slice assignment on SEQUENCE OF/SET OF follows list semantics": [
   ('C19', 'slice assignment with a replacement of different length overwrote following members; s[i:i]=... leaked IndexError')],
 "fix: a constrained type did not recognise types derived from it": [
   ('C14', 'parent.isSuperTypeOf(child) was False for any constrained parent; child values could not be assigned to parent-typed components')],
 "fix: prettyPrintType() of a SEQUENCE/SET schema without declared components": [
   ('C12', 'decoding a type containing a field-less SEQUENCE/SET failed only while debug logging was on')],
 "fix: encoding a Python value with asn1Spec modified the schema object": [
   ('C12', 'encode(mapping, asn1Spec=CHOICE schema) selected the alternative on the schema object itself')],
 "fix: absurd length field read from a file leaked MemoryError": [
   ('C11', 'a huge length field raised MemoryError from file/gzip substrates but underrun from bytes'),
   ('C08', 'MemoryError leaked for huge lengths on file substrates')],
 "fix: a length of exactly sys.maxsize octets was refused on files but reported short in memory": [
   ('C11', 'a definite length of sys.maxsize (or one octet more, after the BIT STRING pad octet) gave PyAsn1Error from file/gzip/raw substrates but underrun from bytes/BytesIO: input 03 88 80 00 00 00 00 00 00 00 + filler')],
 "fix: base 8 and base 16 REAL encoding lost mantissa digits for negative exponents": [
   ('C01', 'a REAL type asking for base 8/16 (binEncBase) with a negative exponent not divisible by 3 (4) and a mantissa beyond 2**53 decoded to a different number: e.g. binEncBase=8, (-835794846692677909421, 2, -2)')],
 "fix: float(), repr() and comparisons of a REAL with a huge exponent built the full power first": [
   ('C08', 'decoding 30 0a 09 08 83 05 7f ff ff ff ff 01 against SEQUENCE (SIZE (2..3)) OF REAL kept one decoder call busy for minutes to hours: the constraint error message prints the REAL, which built 2 ** (2 ** 39) first (found by the C10 thorough tier as a shard that never came back; now decided by the CPU-time guard and the huge-REAL inputs of C08)')],
 "fix: encoding a SEQUENCE/SET value instantiated its absent OPTIONAL and DEFAULT components": [
   ('C12', 'encode() changed the value it was given: absent DEFAULT members appeared in prettyPrint(), == against an equal never-encoded value raised, an absent OPTIONAL record without mandatory members became present-and-empty; later calls on the same object differed from the same calls on a fresh one (found by running the repository tests under the C12 contracts; the C12 generator never left DEFAULT members absent)'),
   ('C01', 'BER wrote an absent OPTIONAL SEQUENCE/SET without mandatory members as present-and-empty: SEQUENCE { f0 SEQUENCE { g INTEGER OPTIONAL } OPTIONAL } with f0 absent encoded as 30 02 30 00'),
   ('C03', 'same BER output read by the reference as a different abstract value'),
   ('C17', 'the value object gained a present-and-empty component the Python tree lacks; native round trip returned an extra empty member')],
 "fix: SequenceOf/SetOf index() searched in storage order instead of position": [
   ('C19', 'after members had been stored out of order (s[1]=1; s[2]=5; s[0]=5; s[3]=5, which the setters accept and the repository tests pin) index(5) returned 2 instead of 0 and applied start/stop to the order of assignment (found when seeded change C19e made the history generator fill positions out of order)')],
 "fix: SequenceOf/SetOf sort() was stable with respect to storage order, not position": [
   ('C19', 'after an out-of-order fill, sort(key=...) with a key that ties distinct members left the ties in order of assignment instead of positional order: [0, 6, 0, 2] stored backwards and sorted by v // 3 gave [2, 0, 0, 6] instead of [0, 0, 2, 6]')],
 "fix: decoders leaked ValueError when an error message had to print a huge integer": [
   ('C08', 'under the interpreter default (sys.get_int_max_str_digits() == 4300, which the harness had switched off for its own arithmetic) an INTEGER of 1900 octets against INTEGER (0..10) / SEQUENCE (SIZE (2..3)) OF INTEGER, or any element whose tag number is spelled with 2100 continuation octets, made every decoder raise ValueError: the constraint violation message and the not-in-asn1Spec message print the number (reported by a seeding sub-agent as a side remark; C08 gained arm (vi), which runs the decoders under the default limit on integer-valued fields beyond 4300 digits)')],
 "fix: CER/DER left out an empty OPTIONAL SEQUENCE OF without checking its constraints": [
   ('C14', 'SEQUENCE { a INTEGER, x [5] SEQUENCE (SIZE (2..2)) OF INTEGER OPTIONAL } with x present and empty: the CER and DER encoders accepted (and silently omitted) the member that violates its SIZE constraint, the BER and native encoders refused it (found when seeded change C14f made C14 place constrained lists inside enclosing values and call all four encoders)')],
 "fix: a flat run of constructed headers made the decoder recurse until RecursionError escaped": [
   ('C08', 'b"\\x30\\x02" * 600 (also a0 02, 31 02, 24 02, 23 02, a0 00 runs): nested two deep when the lengths are respected, decoded with one recursion level per header, RecursionError escaped from one-shot and streaming decoders of all three codecs (reported by a seeding sub-agent as a side remark for a0 00; C08 gained arm (viii), flat runs of constructed headers with lying lengths)')],
 "fix: open-type resolution stored the end-of-octets sentinel as an element of SEQUENCE OF / SET OF ANY": [
   ('C08', 'decodeOpenTypes=True, indefinite-length container, SEQUENCE OF / SET OF ANY element whose octets are 00 00 (e.g. 30 80 df8768 01 01 30 06 df876a 02 00 00 00 00): the result held the decoder-internal EndOfOctets sentinel object as that element')],
 "fix: 'Excessive components' error of an indefinite-length SEQUENCE printed the decoded members": [
   ('C08', 'indefinite-length SEQUENCE { a INTEGER } holding an INTEGER of 1900 octets followed by one component too many (30 80 02 82 07 6c 7f ff.. 02 01 01 00 00), interpreter int->str limit at its default: ValueError escaped from the message formatting instead of PyAsn1Error')],
 "fix: deeply nested input could abort the interpreter; refuse nesting beyond 100 levels": [
   ('C08', "b'\\x30\\x30' * 258 + b'\\x04\\x84\\x00\\x00' (some 250 constructed headers, then a cut long-form length; also 30 80 / a0 7f / 31 30 runs, with or without an indefinite wrapper in front): one-shot decode() under CPython 3.12 ended in 'Fatal Python error: _Py_CheckRecursiveCall: Cannot recover from stack overflow' - the interpreter aborts, no exception")],
}
