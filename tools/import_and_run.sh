#!/bin/sh
# tools/import_and_run.sh <worktree> <seeded-id> <Cnn>   -- import a sub-agent's change and run the property's quick check against it (seeds 0,1,2)
wt=$1; sid=$2; prop=$3
cd /verif || exit 2
/venv/bin/python tools/import_seed.py "$wt" "$sid" "$prop" "$(tr '\n' ' ' < "$wt/NEEDS.txt")" || exit 2
/venv/bin/python tools/seeded.py --seeds 1,2 "$sid"
