"""Source of truth for known_findings.json (run by hand after triage; the checks only ever read the JSON).

A finding *family* is one mechanism in etingof/pyasn1; it is listed once per property whose monitor can observe
it, with that monitor's symptom names and a witness in that monitor's case format."""
import json

FAMILIES = {
 'stray-eoo': dict(
   what="in indefinite mode (and in CER) the encoder writes a definite-length explicit wrapper around BOOLEAN/INTEGER/ENUMERATED/NULL/OID/REAL and still appends 00 00, so the output is not an encoding of the value (a decoder ends the enclosing container early / leaves a remainder)",
   why_open="pinned by tests/codec/ber/test_encoder.py ExpTaggedSequenceComponentEncoderTestCase.testIndefMode, which asserts the malformed octets",
   zone=['emu:stray-eoo']),
 'emptyable-optional': dict(
   what="OPTIONAL components of constructed type: CER/DER drop every OPTIONAL component whose constructed encoding has no contents (a present and empty SEQUENCE / SET / SEQUENCE OF / SET OF), and that test leaks into SEQUENCE OF/SET OF elements and CHOICE alternatives below an OPTIONAL component",
   why_open="the omitEmptyOptionals behaviour is asserted by tests/codec/cer/test_encoder.py (NestedOptional*/OptionalSequenceOf* cases); no small repair (the BER half - absent components materialised by the encoder's own read - was repaired by 332d613)",
   zone=['emu:emptyable-optional']),
 'real-nr3-nodot': dict(
   what="base-10 REAL is written as NR3 without the decimal mark (123E11); X.690 11.3.2 requires 123.E11 in DER/CER",
   why_open="pinned by tests/codec/ber/test_encoder.py RealEncoderTestCase.testChar",
   zone=['emu:real-nr3-nodot']),
 'time-fraction-zeros': dict(
   what="CER/DER canonicalisation of GeneralizedTime deletes every 0 among the first four fraction digits, not only trailing ones (.105 -> .15, .005 -> .5), changing the instant, and leaves trailing zeros beyond the fourth digit in place",
   why_open="pinned by tests/codec/cer/test_encoder.py GeneralizedTimeEncoderTestCase.testWithSubsecondsWithZeros, which asserts .099 -> .99",
   zone=['emu:time-fraction-zeros']),
 'real-default-float': dict(
   what="a DEFAULT REAL component is compared with its default through float(): beyond the range of a Python float the encoder raises OverflowError, and values that underflow to 0.0 (or collide as floats) are taken for the default and silently omitted",
   why_open="Real comparison semantics are float-based by design; an exact comparison is not a small change",
   zone=['emu:real-default-float']),
 'default-constructed': dict(
   what="DEFAULT components of constructed type are compared with their default through the containers' Python-list style ==, which raises on any member that is a schema placeholder (absent OPTIONAL inside the value, or a field-less SEQUENCE/SET default, which clones into a valueless object), and is type-blind and order-sensitive where it succeeds (a SET OF default holding the same members in another insertion order, or members left with placeholders by an earlier read, compares unequal, so whether the component is omitted depends on how the value was built)",
   why_open="equality of constructed ASN.1 objects is list-like and type-blind by design; a structural comparison is not a small change",
   zone=['default-constructed']),
 'default-choice': dict(
   what="a DEFAULT component of CHOICE type: Choice.__eq__ compares the chosen alternative with the whole default CHOICE object; the alternative's type either refuses the coercion (encoder raises) or compares type-blind (an empty OCTET STRING alternative equals a NULL default, so the value is silently replaced by the default)",
   why_open="same comparison design as default-constructed",
   zone=['default-choice']),
}

WILD_ENC = ["*:encode-raised:*", "*:in-zone-output-differs-from-emulation"]

ENTRIES = [
 # (property, family, symptoms, witness)
 ('C01', 'stray-eoo', ['ber:stray-eoo'], "('c01', ('tag', 'E', 'A', 9, ('bool',)), False, False, 0)"),
 ('C01', 'real-default-float', ['ber:real-default-float'],
  "('c01', ('seq', (('f0', ('real',), 'def', ('r', 123, 2, 32768)),)), {'f0': ('r', 123, 2, 32768)}, True, 0)"),
 ('C01', 'default-constructed', WILD_ENC + ['ber:value-differs:*', 'ber:decode-raised:*'],
  "('c01', ('seq', (('f1', ('seq', (('g', ('int',), 'opt', None), ('h', ('int',), 'req', None))), 'def', {'h': 1}),)), {'f1': {'g': 5, 'h': 1}}, True, 0)"),
 ('C01', 'default-choice', WILD_ENC + ['ber:value-differs:*', 'ber:decode-raised:*'],
  "('c01', ('set', (('f0', ('choice', (('a0', ('bits',)),)), 'def', ('a0', (18, 237397))), ('f1', ('octs',), 'opt', None))), {'f0': ('a0', (18, 237397))}, True, 0)"),

 ('C02', 'stray-eoo', ['cer:stray-eoo'], "('c02', ('tag', 'E', 'C', 9, ('int',)), 211, 'CER')"),
 ('C02', 'emptyable-optional', ['cer:emptyable-optional', 'der:emptyable-optional'],
  "('c02', ('seq', (('f0', ('set', ()), 'opt', None), ('f1', ('tag', 'E', 'C', 7, ('bool',)), 'opt', None))), {'f0': {}, 'f1': True}, 'DER')"),
 ('C02', 'time-fraction-zeros', ['cer:time-fraction-zeros', 'der:time-fraction-zeros'],
  "('c02', ('useful', 'GeneralizedTime'), '19701027114001.05Z', 'DER')"),
 ('C02', 'real-default-float', ['cer:real-default-float', 'der:real-default-float'],
  "('c02', ('seq', (('f0', ('real',), 'def', ('r', 123, 2, 32768)),)), {'f0': ('r', 123, 2, 32768)}, 'DER')"),
 ('C02', 'default-constructed', WILD_ENC + ['*->*:value-differs:*', '*->*:decode-raised:*'],
  "('c02', ('seq', (('f1', ('seq', (('g', ('int',), 'opt', None), ('h', ('int',), 'req', None))), 'def', {'h': 1}),)), {'f1': {'g': 5, 'h': 1}}, 'DER')"),
 ('C02', 'default-choice', WILD_ENC + ['*->*:value-differs:*', '*->*:decode-raised:*'],
  "('c02', ('set', (('f0', ('choice', (('a0', ('bits',)),)), 'def', ('a0', (18, 237397))), ('f1', ('octs',), 'opt', None))), {'f0': ('a0', (18, 237397))}, 'DER')"),

 ('C03', 'stray-eoo', ['ber:stray-eoo', 'cer:stray-eoo'], "('c03', ('tag', 'E', 'C', 11, ('null',)), None, 'CER', (False, 0))"),
 ('C03', 'emptyable-optional', ['cer:emptyable-optional', 'der:emptyable-optional'],
  "('c03', ('tag', 'E', 'C', 5, ('tag', 'I', 'C', 2, ('set', (('f0', ('set', ()), 'opt', None),)))), {'f0': {}}, 'DER', (True, 2))"),
 ('C03', 'real-nr3-nodot', ['der:real-nr3-nodot'], "('c03', ('real',), ('r', -1, 10, 33), 'DER', (False, 1))"),
 ('C03', 'time-fraction-zeros', ['der:time-fraction-zeros', 'cer:time-fraction-zeros'],
  "('c03', ('tag', 'I', 'C', 12, ('useful', 'GeneralizedTime')), '20001224024056.105Z', 'DER', (False, 0))"),
 ('C03', 'real-default-float', ['ber:real-default-float', 'cer:real-default-float', 'der:real-default-float'],
  "('c03', ('seq', (('f3', ('real',), 'def', ('r', 3935, 10, 127)),)), {'f3': ('r', -123, 2, 1023)}, 'DER', (True, 3))"),
 ('C03', 'default-constructed', WILD_ENC + ['*:reference-reads-different-value:*', 'der-bytes-differ:*'],
  "('c03', ('seq', (('f1', ('seq', (('g', ('int',), 'opt', None), ('h', ('int',), 'req', None))), 'def', {'h': 1}),)), {'f1': {'g': 5, 'h': 1}}, 'DER', (True, 0))"),
 ('C03', 'default-choice', WILD_ENC + ['*:reference-reads-different-value:*', 'der-bytes-differ:*'],
  "('c03', ('set', (('f0', ('choice', (('a0', ('bits',)),)), 'def', ('a0', (18, 237397))), ('f1', ('octs',), 'opt', None))), {'f0': ('a0', (18, 237397))}, 'DER', (True, 0))"),
]

# properties whose monitors drive the real encoders through common.encode_monitored and therefore observe the
# encoder-side families with symptoms '<codec>:<family>' on generic ('enc', T, v, codec, defMode, chunk) cases
ENC_PROPS = {
 'C04': ('CER', 'DER'), 'C05': ('BER', 'CER', 'DER'), 'C06': ('BER', 'CER', 'DER'), 'C07': ('BER', 'CER', 'DER'),
 'C12': ('BER', 'CER', 'DER'), 'C13': ('BER',),
 'C17': ('BER', 'CER', 'DER'),
}
ENC_WITNESS = {
 'stray-eoo': "('enc', ('tag', 'E', 'C', 9, ('int',)), 211, '%s', False, 0)",
 'emptyable-optional': "('enc', ('seq', (('f0', ('seq', (('g', ('int',), 'opt', None),)), 'opt', None),)), {%s}, '%s', True, 0)",
 'time-fraction-zeros': "('enc', ('useful', 'GeneralizedTime'), '19701027114001.05Z', '%s', True, 0)",
 'real-default-float': "('enc', ('seq', (('f0', ('real',), 'def', ('r', 123, 2, 32768)),)), {'f0': ('r', 123, 2, 32768)}, '%s', True, 0)",
 'default-constructed': "('enc', ('seq', (('f1', ('seq', (('g', ('int',), 'opt', None), ('h', ('int',), 'req', None))), 'def', {'h': 1}),)), {'f1': {'g': 5, 'h': 1}}, '%s', True, 0)",
 'default-choice': "('enc', ('set', (('f0', ('choice', (('a0', ('bits',)),)), 'def', ('a0', (18, 237397))), ('f1', ('octs',), 'opt', None))), {'f0': ('a0', (18, 237397))}, '%s', True, 0)",
}
for _prop, _codecs in sorted(ENC_PROPS.items()):
    for _fam in ('stray-eoo', 'emptyable-optional', 'time-fraction-zeros', 'real-default-float',
                 'default-constructed', 'default-choice'):
        _c = [c for c in _codecs if not (_fam == 'stray-eoo' and c == 'DER') and not (_fam == 'time-fraction-zeros' and c == 'BER')
              and not (_fam == 'emptyable-optional' and c == 'BER')]     # BER half repaired by 332d613
        if not _c:
            continue
        _w = ENC_WITNESS[_fam]
        if _fam == 'emptyable-optional':
            # BER: absent component gets materialised; CER/DER: present-and-empty component gets dropped
            _w = _w % (("" if _c[0] == 'BER' else "'f0': {}"), _c[0])
        else:
            _w = _w % _c[0]
        if _fam in ('default-constructed', 'default-choice'):
            _syms = ["*:encode-raised:*", "*:in-zone-output-differs-from-emulation", "*value-differs*", "*decode-raised*"]
            if _prop == 'C05':
                # ... seen by C05's history monitor: the stream item was encoded by the library, which took the value
                # for its DEFAULT and left it out, so every schedule yields the default instead of the value
                _syms += ["objects-differ"]
            if _prop == 'C04':
                # the same comparison, seen by C04's history monitor: the omit/emit decision (or the raise) differs
                # between two construction histories of one abstract value
                _syms += ["*:bytes-differ-between-histories:*", "*:re-encode-raised"]
        else:
            _syms = ['%s:%s' % (c.lower(), _fam) for c in _c]
        ENTRIES.append((_prop, _fam, _syms, _w))

ENTRIES.append(('C16', 'real-nr3-nodot', ['der:real-nr3-nodot'], "('c16', ('real',), ('r', -257, 10, 25), 'DER', '0909032d3235372e453235')"))

ENTRIES.append(('C16', 'time-fraction-zeros', ['der:time-fraction-zeros'], "('c16', ('tag', 'E', 'P', 9, ('useful', 'GeneralizedTime')), '20000915230957.05Z', 'DER', 'e914181232303030303931353233303935372e30355a')"))

ENTRIES.append(('C19', 'emptyable-optional', ['nested:emptyable-optional'], "('c19', 'nested-seq', 168945197062137, 20)"))
ENTRIES.append(('C20', 'time-fraction-zeros', ['time-fraction-zeros'], "('c20-str', 'GeneralizedTime', '197008280053.020Z', 'CER')"))

_WRAP_WHAT = ("CachingStreamWrapper (used for every non-seekable substrate) drops its cache and renumbers positions from 0 when the mark is set more than io.DEFAULT_BUFFER_SIZE octets into the cache; the decoder keeps absolute positions (original_position, bytesRead) of enclosing definite-length elements across that point")
_WRAP_WHY = "pinned by tests/codec/test_streaming.py CachingStreamWrapperTestCase.testMarkedPositionResets, which asserts markedPosition == 0 and an empty cache after the drop"
EXTRA = [
 {'id': 'KF-C10-real-default-float-fixpoint', 'status': 'open', 'property': 'C10',
  'symptom': ['fixpoint-differs:real'], 'zone': ['default-real-huge'],
  'what': FAMILIES['real-default-float']['what'] + ' -- seen here as: a BER REAL with a scaled mantissa decodes to a (mantissa, 2, exponent) split whose float() underflows to 0.0 although the number itself does not; re-encoding takes it for the DEFAULT 0 and omits it, so decode(encode(decode(x))) holds a different number',
  'why_open': FAMILIES['real-default-float']['why_open'],
  'witness': "('c10', ('seq', (('f0', ('real',), 'def', 0),)), (), '300e090ccdfbcb080000000000000008', 'BER')"},
 {'id': 'KF-C14-real-constraints-see-the-internal-tuple', 'status': 'open', 'property': 'C14',
  'symptom': ['real:constraint-evaluation-raised:TypeError', 'real:rejects-inside', 'real:accepts-outside'], 'zone': ['domain:real'],
  'what': 'the constraint of a REAL type is evaluated against the internal (mantissa, base, exponent) tuple, not against the number: a ValueRangeConstraint raises TypeError from its comparison for every finite value (REAL (0..3) cannot hold 2.5), a SingleValueConstraint of numbers never matches',
  'why_open': "every constraint class receives the type's internal representation by design (SimpleAsn1Type.__init__ passes prettyIn(value)); making REAL constraints numeric means changing that contract or the representation of Real, not a small change",
  'witness': "('c14-real', ('range', 0, 5), 2.5)"},
 {'id': 'KF-C04-real-default-float-history', 'status': 'open', 'property': 'C04',
  'symptom': ['*:bytes-differ-between-histories:*'], 'zone': ['default-real-huge'],
  'what': FAMILIES['real-default-float']['what'] + ' -- seen here as: float(mantissa * base**exponent) underflows to 0.0 or not depending on how the decoder split the same number into mantissa and exponent, so one abstract value is omitted as the default after one history (decoded from a BER form with a scaled mantissa) and emitted after another',
  'why_open': FAMILIES['real-default-float']['why_open'],
  'witness': "('c04', ('seq', (('f0', ('real',), 'def', 0),)), {'f0': ('r', 3, 2, -1073)}, 'DER', 'plain', 'decode-variant')"},
 {'id': 'KF-C11-wrapper-renumbering-breaks-long-definite-elements', 'status': 'open', 'property': 'C11',
  'symptom': ['kind-differs:raw-vs-bytesio:*'], 'zone': ['definite-constructed-spans-a-cache-drop', 'kind:raw'],
  'what': _WRAP_WHAT + ' -- so a definite-length constructed element that starts before and ends after such a point cannot be decoded from a non-seekable stream (length mismatch / excessive components), while every seekable kind decodes it',
  'why_open': _WRAP_WHY,
  'witness': "('c11-kinds-gen', 9000, 'oneshot')"},
 {'id': 'KF-C11-wrapper-renumbering-position-jumps', 'status': 'open', 'property': 'C11',
  'symptom': ['wrapper:mark-deviates'], 'zone': ['cache-dropped'],
  'what': _WRAP_WHAT + ' -- tell() jumps backwards without any octet having been moved, which no seekable stream does',
  'why_open': _WRAP_WHY,
  'witness': "('c11-wrapper', 40970, 1, 60)"},
 {'id': 'KF-C17-default-constructed-bare', 'status': 'open', 'property': 'C17',
  'symptom': ['bare:*:bytes-differ', 'bare:*:raised:*'], 'zone': ['default-constructed'],
  'what': FAMILIES['default-constructed']['what'] + ' -- for a bare Python mapping/list the comparison with a constructed DEFAULT never holds, so the member is always written',
  'why_open': FAMILIES['default-constructed']['why_open'],
  'witness': "('c17', ('seq', (('f0', ('seq', (('x', ('int',), 'req', None),)), 'def', {'x': 1}),)), {'f0': {'x': 1}}, 'DER:derived')"},
 {'id': 'KF-C17-default-choice-bare', 'status': 'open', 'property': 'C17',
  'symptom': ['bare:*:bytes-differ', 'bare:*:raised:*'], 'zone': ['default-choice'],
  'what': FAMILIES['default-choice']['what'], 'why_open': FAMILIES['default-choice']['why_open'],
  'witness': "('c17', ('seq', (('f0', ('choice', (('a0', ('int',)),)), 'def', ('a0', 1)),)), {'f0': ('a0', 1)}, 'DER:derived')"},
 {'id': 'KF-C10-noncanonical-time-accepted', 'status': 'open', 'property': 'C10',
  'symptom': ['accepted-value-not-encodable:library'], 'zone': ['accepted-noncanonical-time'],
  'what': "the CER and DER decoders do not validate GeneralizedTime/UTCTime contents (no Z, local offsets, wrong length, comma or trailing zeros in the fraction are all accepted), while the CER/DER encoders refuse exactly those strings: a decoder-accepted value that the same codec's encoder rejects",
  'why_open': "the source marks it as a TODO ('prohibit non-canonical encoding'); adding time validation to the CER/DER decoders is new behaviour, not a small repair",
  'witness': "('c10', ('useful', 'GeneralizedTime'), (), '180e3230313730313032303330343035', 'DER')"},
 {'id': 'KF-C06-closed-mid-read', 'status': 'open', 'property': 'C06',
  'symptom': ['closed:keeps-reporting-underrun'], 'zone': ['stream-ended-inside-a-multi-octet-read'],
  'what': "streaming decoder on a stream that was closed inside a multi-octet read (tag+length known, fewer contents octets than announced, or half of an end-of-octets pair): every retry gets the same short read, rewinds and reports underrun again, so EndOfStreamError is never raised; only a cut on a read boundary (the next read returns b'') is recognised as end of stream",
  'why_open': "the substrate protocol cannot tell 'fewer octets because the rest has not arrived' from 'fewer octets because the stream ended' on a short read; telling them apart needs an extra probing read, which would break callers that grow an io.BytesIO between retries (b'' is not final there) - not a small, safe change",
  'witness': "('c06', ('octs',), b'abc', 'BER', '0403616263', 3, 'spec', 'seekable-double')"},
 {'id': 'KF-C05-closed-mid-read', 'status': 'open', 'property': 'C05',
  'symptom': ['terminal-differs:underrun-instead-of-raised:EndOfStreamError'], 'zone': ['damaged'],
  'what': "the same mechanism as KF-C06-closed-mid-read, seen by C05's damaged-stream arm (an extension beyond the property's quantifier, which speaks of streams of valid encodings): a damaged stream whose last element announces more contents than the stream holds ends, on complete input, with EndOfStreamError; fed in pieces, the read that straddles the end of the data comes back short, the decoder rewinds and reports underrun, and every retry after the stream was closed does the same, so the error the complete input raises never comes",
  'why_open': "see KF-C06-closed-mid-read",
  'witness': "('c05', ('tag', 'I', 'C', 6, ('tag', 'E', 'C', 4294967296, ('octs',))), 'BER', 'a6132484ffffffff0405303030303004053030303030040130a680248024800402ffff048400000002ffff00000401ff0401ff0401ff00000000a60c040aff0200a0a0000024ffff', 'seekable', 'short', (64, 8), (), True, False, ('tag', 'I', 'C', 6, ('tag', 'E', 'C', 4294967296, ('octs',))))"},
]   # hand-written entries (dicts) for findings outside the families


FIXED = [
 # (property, commit subject, what failed) - commit hashes are resolved from /repo's log by subject
]


def main():
    import subprocess
    log = subprocess.run(['git', '-C', '/repo', 'log', '--format=%h %s'], capture_output=True, text=True).stdout
    fixes = [l.split(' ', 1) for l in log.splitlines() if l.split(' ', 1)[1].startswith('fix:')]
    out = []
    for prop, fam, syms, wit in ENTRIES:
        f = FAMILIES[fam]
        out.append({'id': 'KF-%s-%s' % (prop, fam), 'status': 'open', 'property': prop, 'symptom': syms,
                    'zone': f['zone'], 'what': f['what'], 'why_open': f['why_open'], 'witness': wit})
    out += EXTRA
    try:
        from fixed_table import FIXED_BY_SUBJECT
    except ImportError:
        FIXED_BY_SUBJECT = {}
    for h, subj in fixes:
        props = FIXED_BY_SUBJECT.get(subj)
        if props is None:
            print('NOTE: fix commit without property attribution:', subj)
            props = [('?', '')]
        for prop, what in props:
            out.append({'id': 'FIXED-%s-%s' % (prop, h), 'status': 'fixed', 'property': prop, 'commit': h,
                        'what': what or subj, 'line': 'fixed: property=%s %s %s' % (prop, h, what or subj)})
    doc = {'comment': "Genuine defects of etingof/pyasn1 found by the monitors. status=open: recorded, not repaired "
                      "(reason in why_open); a check prints KNOWN-FINDING for it while its stored witness still "
                      "reproduces, and only a violation with the same property, a matching symptom and the zone "
                      "(subset of the case's structural features) is attributed to it. status=fixed: repaired by the "
                      "named fix: commit in /repo; suppresses nothing. Generated by tools/make_kf.py; never written at "
                      "check run time.",
           'findings': out}
    json.dump(doc, open('/verif/known_findings.json', 'w'), indent=1)
    print(len(out), 'entries')


if __name__ == '__main__':
    import sys
    sys.path.insert(0, '/verif/tools')
    main()
