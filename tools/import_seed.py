"""Import a sub-agent's property-breaking change from its scratch worktree into /verif/seeded/<id>/."""
import json, os, shutil, sys
wt, sid, prop, needs = sys.argv[1:5]
d = os.path.join('/verif/seeded', sid)
os.makedirs(d, exist_ok=True)
shutil.copy(os.path.join(wt, 'patch.diff'), os.path.join(d, 'patch.diff'))
shutil.copy(os.path.join(wt, 'demo.py'), os.path.join(d, 'demo.py'))
meta = {'property': prop, 'origin': 'independent sub-agent given only the property text and a scratch worktree of /repo HEAD',
        'needs_to_manifest': needs, 'demo': 'demo.py',
        'confirmed_by': 'tools/seeded.py: patch applied to a fresh worktree of /repo HEAD; repository tests pass there; demo.py exits non-zero with the patch; see RESULTS.json'}
json.dump(meta, open(os.path.join(d, 'meta.json'), 'w'), indent=1)
print('imported', sid)
