"""Run the repository's own test suite with C12's purity contracts installed on the real encoder / decoder entry
points (guidance: a contract that fires there is either too strict or a defect the tests do not assert).

  tools/repo_tests_under_contracts.py      -> prints every (test, broken condition) pair and the evaluation count
Not a check: an exploration whose result is recorded in DESIGN.md 7.5."""
import os
import sys

VERIF = os.path.dirname(os.path.dirname(os.path.abspath(__file__)))
sys.path.insert(0, VERIF)
os.environ.setdefault('VERIF_REPO', '/repo')
from vlib import harness as H   # noqa: E402
H.setup_paths()
import pytest                   # noqa: E402
from vlib.props import c12      # noqa: E402


class Plugin(object):
    def __init__(self):
        self.contracts = c12.Contracts()
        self.fired = []
        self.seen = 0

    def pytest_sessionstart(self, session):
        self.contracts.install()

    def pytest_runtest_teardown(self, item):
        new = self.contracts.broken[self.seen:]
        self.seen = len(self.contracts.broken)
        for b in new:
            self.fired.append((item.nodeid, b))

    def pytest_sessionfinish(self, session):
        self.contracts.uninstall()


def main():
    p = Plugin()
    os.chdir(os.environ['VERIF_REPO'])
    rc = pytest.main(['-q', '-p', 'no:cacheprovider', '-x', '--no-header', '-q'], plugins=[p])
    print('pytest exit', rc, '; contract implementation', p.contracts.kind, '; contract evaluations', p.contracts.evaluations)
    seen = {}
    for nodeid, b in p.fired:
        seen.setdefault(b, []).append(nodeid)
    for b, ids in seen.items():
        print('FIRED', b, 'in', len(ids), 'tests, e.g.', ids[:4])
    if not p.fired:
        print('no contract fired')
    return 0


if __name__ == '__main__':
    sys.exit(main())
