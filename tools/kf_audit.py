"""Which open known-finding entries still reproduce on the current tree?  (An entry that does not is either repaired
- move it to tools/fixed_table.py - or its witness went stale.)   tools/kf_audit.py"""
import importlib, json, os, sys
V = os.path.dirname(os.path.dirname(os.path.abspath(__file__)))
sys.path.insert(0, V)
os.environ.setdefault('VERIF_REPO', '/repo')
os.environ.setdefault('PYTHONHASHSEED', '0')
from vlib import harness as H
H.setup_paths()
findings = H.load_findings()
mods = {}
dead = 0
for f in findings:
    if f.get('status') != 'open':
        continue
    p = f['property']
    mod = mods.get(p) or mods.setdefault(p, importlib.import_module('vlib.props.' + p.lower()))
    try:
        res = mod.replay(H.case_from_repr(f['witness']))
        ok = any(H.match_finding(p, w, [f]) for w in res.witnesses)
        why = '' if ok else 'symptoms seen: %s' % sorted(set(w['symptom'] for w in res.witnesses))[:4]
    except Exception as ex:
        ok, why = False, 'replay raised %s' % ex
    if not ok:
        dead += 1
        print('NOT REPRODUCING', f['id'], why)
print('%d open entries, %d not reproducing' % (sum(1 for f in findings if f.get('status') == 'open'), dead))
