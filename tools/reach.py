"""Which statements of pyasn1 do the workloads actually drive?

  tools/reach.py [Cnn ...]            (default: all twenty; one small quick shard each, in-process)

A sys.monitoring LINE callback (returning DISABLE after the first hit of each line, so the cost is one event per
distinct line) records every pyasn1 line executed while one shard of each check runs.  The union is compared with the
executable lines of the modules the properties are anchored in; what is never reached is printed per function, so that
input classes can be widened where the monitors are blind.  Writes tools/reach_report.txt.  Not a check: nothing here
decides a property."""
import dis
import importlib
import json
import os
import sys
import types

VERIF = os.path.dirname(os.path.dirname(os.path.abspath(__file__)))
sys.path.insert(0, VERIF)
os.environ.setdefault('VERIF_REPO', '/repo')
os.environ.setdefault('PYTHONHASHSEED', '0')

from vlib import harness as H   # noqa: E402

H.setup_paths()

ANCHORS = ['pyasn1/codec/ber/decoder.py', 'pyasn1/codec/ber/encoder.py', 'pyasn1/codec/cer/encoder.py',
           'pyasn1/codec/cer/decoder.py', 'pyasn1/codec/der/encoder.py', 'pyasn1/codec/der/decoder.py',
           'pyasn1/codec/native/encoder.py', 'pyasn1/codec/native/decoder.py', 'pyasn1/codec/streaming.py',
           'pyasn1/type/univ.py', 'pyasn1/type/base.py', 'pyasn1/type/tag.py', 'pyasn1/type/namedtype.py',
           'pyasn1/type/constraint.py', 'pyasn1/type/useful.py', 'pyasn1/type/char.py', 'pyasn1/type/opentype.py',
           'pyasn1/type/tagmap.py', 'pyasn1/type/namedval.py']


def executable_lines(path):
    """{line: qualified function name} for every line that starts an instruction in the compiled module."""
    src = open(path).read()
    code = compile(src, path, 'exec')
    out = {}

    def walk(co, qual):
        for _, _, line in co.co_lines():
            if line is not None and line > 0:
                out.setdefault(line, qual)
        for c in co.co_consts:
            if isinstance(c, types.CodeType):
                walk(c, (qual + '.' if qual != '<module>' else '') + c.co_name)
    walk(code, '<module>')
    return out


def main(argv):
    props = [a for a in argv if a.startswith('C')] or ['C%02d' % i for i in range(1, 21)]
    repo = os.path.realpath(os.environ['VERIF_REPO'])
    hit = {}
    mon = sys.monitoring
    TOOL = mon.COVERAGE_ID
    mon.use_tool_id(TOOL, 'reach')

    def on_line(code, line):
        fn = code.co_filename
        if '/pyasn1/' in fn:
            hit.setdefault(fn, set()).add(line)
        return mon.DISABLE
    mon.register_callback(TOOL, mon.events.LINE, on_line)
    mon.set_events(TOOL, mon.events.LINE)
    per_prop = {}
    for p in props:
        mod = importlib.import_module('vlib.props.' + p.lower())
        shards = mod.plan('quick', 0)
        sh = dict(shards[0])
        sh['n'] = max(1, min(sh.get('n', 1), int(os.environ.get('REACH_N', '400'))))
        before = sum(len(v) for v in hit.values())
        try:
            mod.run_shard(sh, 'quick', 0)
        except Exception as ex:
            print('%s: shard raised %s' % (p, ex))
        mon.restart_events()
        per_prop[p] = sum(len(v) for v in hit.values()) - before
        print('%s: +%d new lines' % (p, per_prop[p]), flush=True)
    mon.set_events(TOOL, 0)
    mon.free_tool_id(TOOL)
    lines = []
    total_exec = total_hit = 0
    for rel in ANCHORS:
        path = os.path.join(repo, rel)
        ex = executable_lines(path)
        h = hit.get(path, set())
        # module-level lines run at import time, before monitoring started: not informative
        miss = sorted(l for l, q in ex.items() if l not in h and q != '<module>' and not q.endswith('<module>'))
        inner = [l for l, q in ex.items() if q != '<module>']
        total_exec += len(inner)
        total_hit += len(inner) - len(miss)
        lines.append('== %s: %d of %d statement lines inside functions reached' % (rel, len(inner) - len(miss), len(inner)))
        byfn = {}
        for l in miss:
            byfn.setdefault(ex[l], []).append(l)
        src = open(path).read().splitlines()
        for fn in sorted(byfn, key=lambda f: byfn[f][0]):
            ls = byfn[fn]
            lines.append('  %s: %s' % (fn, ' '.join(map(str, ls))))
            for l in ls[:40]:
                t = src[l - 1].strip()
                if t and not t.startswith(('LOG(', "'", '"', 'if LOG', '%', ')')):
                    lines.append('      %5d  %s' % (l, t[:110]))
    head = 'reached %d of %d statement lines inside functions of the anchored modules (%s)' % (
        total_hit, total_exec, ', '.join('%s +%d' % kv for kv in sorted(per_prop.items())))
    open(os.path.join(VERIF, 'tools', 'reach_report.txt'), 'w').write(head + '\n' + '\n'.join(lines) + '\n')
    print(head)
    return 0


if __name__ == '__main__':
    sys.exit(main(sys.argv[1:]))
