"""Developer aid: run one property in-process on a few shards and print a symptom histogram with the
smallest witness per (symptom)."""
import sys, importlib, collections, json
sys.path.insert(0, '/verif')
from vlib import harness as H
H.setup_paths()
prop = sys.argv[1]
n = int(sys.argv[2]) if len(sys.argv) > 2 else 1500
seed = int(sys.argv[3]) if len(sys.argv) > 3 else 0
tier = sys.argv[4] if len(sys.argv) > 4 else 'quick'
mod = importlib.import_module('vlib.props.' + prop.lower())
res = mod.run_shard({'shard': 0, 'n': n, 'nshards': 16}, tier, seed)
findings = H.load_findings()
by = collections.defaultdict(list)
for w in res.witnesses:
    f = H.match_finding(prop.upper(), w, findings)
    by[(w['symptom'], f['id'] if f else None)].append(w)
print('evaluations', res.evaluations, 'distinct', len(res.hashes))
for k, v in sorted(res.obs.items()):
    print('  obs', k, v)
for k, v in res.sets.items():
    print('  set', k, sorted(v)[:10])
for (sym, kf), ws in sorted(by.items(), key=lambda x: -len(x[1])):
    ws.sort(key=lambda w: len(w['case']))
    w = ws[0]
    print('=' * 100)
    print('%s  x%d  known=%s' % (sym, len(ws), kf))
    common = set(ws[0]['features'])
    for x in ws:
        common &= set(x['features'])
    print('  common features:', sorted(common))
    print('  smallest case:', w['case'][:1200])
    print('  detail:', w['detail'][:600])
print(res.inconclusive[:2])
