"""Driver: ./check <ID> [quick|thorough] [--replay PATH]   (DESIGN 1)

Plans shards, runs one worker subprocess per shard (<=16 at a time, each under a wall-clock watchdog whose
firing is *inconclusive*, never a violation), merges what the monitors observed, classifies witnesses
against known_findings.json, writes evidence/<id>.json and replay files, prints KNOWN-FINDING / VIOLATION /
INCONCLUSIVE lines and exits 0 / 1 / 2."""
import collections
import hashlib
import importlib
import json
import os
import shutil
import subprocess
import sys
import tempfile
import time

from . import harness as H

PY = sys.executable
MAXPROC = int(os.environ.get('VERIF_JOBS', '16'))


def git_head(repo):
    try:
        head = subprocess.run(['git', '-C', repo, 'rev-parse', 'HEAD'], capture_output=True, text=True,
                              timeout=20).stdout.strip()
        dirty = bool(subprocess.run(['git', '-C', repo, 'status', '--porcelain', '--', 'pyasn1'],
                                    capture_output=True, text=True, timeout=20).stdout.strip())
        return head, dirty
    except Exception:
        return 'unknown', False


def run_workers(prop, tier, seed, shards, timeout):
    work = tempfile.mkdtemp(prefix='pyasn1-verif-%s-' % prop)
    results, problems = [], []
    try:
        pending = list(enumerate(shards))
        running = []
        env = dict(os.environ, PYTHONHASHSEED='0', VERIF_REPO=H.REPO)
        while pending or running:
            while pending and len(running) < MAXPROC:
                i, sh = pending.pop(0)
                out = os.path.join(work, 'shard%d.json' % i)
                err = open(os.path.join(work, 'shard%d.err' % i), 'w')
                p = subprocess.Popen([PY, '-m', 'vlib.worker', prop, tier, str(seed), json.dumps(sh), out],
                                     cwd=H.VERIF, env=env, stdout=err, stderr=err)
                running.append((i, p, out, err, time.time()))
            time.sleep(0.05)
            still = []
            for i, p, out, err, t0 in running:
                rc = p.poll()
                if rc is None:
                    if time.time() - t0 > timeout:
                        p.kill()
                        p.wait()
                        err.close()
                        problems.append('shard %d: wall-clock watchdog (%ds) fired' % (i, timeout))
                    else:
                        still.append((i, p, out, err, t0))
                    continue
                err.close()
                if rc != 0 or not os.path.exists(out):
                    tail = open(err.name).read()[-1500:]
                    problems.append('shard %d: worker exit %s: %s' % (i, rc, tail))
                else:
                    with open(out) as f:
                        results.append(json.load(f))
            running = still
    finally:
        shutil.rmtree(work, ignore_errors=True)
    return results, problems


def merge(results):
    m = {'evaluations': 0, 'hashes': set(), 'samples': [], 'obs': collections.Counter(),
         'sets': collections.defaultdict(set), 'maxima': {}, 'witnesses': [], 'inconclusive': [],
         'kf_hits': collections.Counter()}
    for r in results:
        m['evaluations'] += r['evaluations']
        m['hashes'].update(r['hashes'])
        for s in r['samples']:
            if len(m['samples']) < 6:
                m['samples'].append(s)
        m['obs'].update(r['obs'])
        for k, v in r['sets'].items():
            m['sets'][k].update(v)
        for k, v in r['maxima'].items():
            if v > m['maxima'].get(k, float('-inf')):
                m['maxima'][k] = v
        m['witnesses'] += r['witnesses']
        m['inconclusive'] += r['inconclusive']
        m['kf_hits'].update(r.get('kf_hits', {}))
    return m


def write_replay(prop, w, seed, tier):
    d = os.path.join(H.VERIF, 'replay')
    os.makedirs(d, exist_ok=True)
    h = hashlib.sha1((w['symptom'] + w['case']).encode()).hexdigest()[:12]
    path = os.path.join(d, '%s-%s.json' % (prop, h))
    with open(path, 'w') as f:
        json.dump({'property': prop, 'symptom': w['symptom'], 'features': w['features'], 'case': w['case'],
                   'detail': w['detail'], 'seed': seed, 'tier': tier}, f, indent=1)
    return path


def replay_findings(mod, prop, findings):
    """Replay every open finding's stored witness; return the ones that still reproduce."""
    live = []
    for f in findings:
        if f.get('status') != 'open' or f['property'] != prop:
            continue
        try:
            res = mod.replay(H.case_from_repr(f['witness']))
            syms = f['symptom'] if isinstance(f['symptom'], list) else [f['symptom']]
            if any(H.match_finding(prop, w, [f]) for w in res.witnesses):
                live.append(f)
        except Exception:
            sys.stderr.write('finding %s: replay raised\n%s\n' % (f.get('id'), H.fmt_exc()))
    return live


def main(argv):
    if os.environ.get('PYTHONHASHSEED') != '0':
        os.environ['PYTHONHASHSEED'] = '0'
        os.execv(PY, [PY, '-m', 'vlib.run'] + argv)
    args = [a for a in argv if not a.startswith('--')]
    prop = args[0].upper()
    tier = os.environ.get('VERIF_TIER') or (args[1] if len(args) > 1 else 'quick')
    if tier not in ('quick', 'thorough'):
        tier = 'quick'
    seed = int(os.environ.get('VERIF_SEED', '0') or 0)
    H.setup_paths()
    mod = importlib.import_module('vlib.props.' + prop.lower())
    findings = H.load_findings()

    if '--replay' in argv:
        path = argv[argv.index('--replay') + 1]
        with open(path) as f:
            rp = json.load(f)
        res = mod.replay(H.case_from_repr(rp['case']))
        bad = [w for w in res.witnesses if not H.match_finding(prop, w, findings)]
        for w in res.witnesses:
            print('REPLAY symptom=%s known=%s detail=%s' % (
                w['symptom'], bool(H.match_finding(prop, w, findings)), w['detail'][:300]))
        if bad:
            print('VIOLATION property=%s replay=%s' % (prop, path))
            return 1
        print('replay: no violation reproduced')
        return 0

    t0 = time.time()
    shards = mod.plan(tier, seed)
    timeout = getattr(mod, 'SHARD_TIMEOUT', {'quick': 600, 'thorough': 7200})[tier]
    results, problems = run_workers(prop, tier, seed, shards, timeout)
    m = merge(results)
    problems += m['inconclusive']
    if hasattr(mod, 'conclusive'):
        problems += mod.conclusive(m, tier) or []

    live = replay_findings(mod, prop, findings)
    for f in live:
        print('KNOWN-FINDING: property=%s %s %s' % (prop, f['id'], f['what']))

    violations = []
    seen = set()
    known_counts = collections.Counter()
    for w in m['witnesses']:
        f = H.match_finding(prop, w, findings)
        if f is not None:
            known_counts[f['id']] += 1
            continue
        key = (w['symptom'], tuple(sorted(x for x in w['features'] if x in getattr(mod, 'KEY_FEATURES', ()))))
        if key in seen:
            continue
        seen.add(key)
        violations.append(w)
    violations.sort(key=lambda w: (w['symptom'], len(w['case'])))
    for w in violations[:40]:
        path = write_replay(prop, w, seed, tier)
        print('VIOLATION property=%s replay=%s symptom=%s' % (prop, path, w['symptom']))

    wall = time.time() - t0
    head, dirty = git_head(H.REPO)
    cov = {
        'evaluations': m['evaluations'],
        'distinct_nontrivial': len(m['hashes']),
        'rule': getattr(mod, 'RULE', ''),
        'samples': m['samples'],
        'observations': dict(sorted(m['obs'].items())),
        'observed_sets': dict((k, sorted(v)) for k, v in sorted(m['sets'].items())),
        'maxima': m['maxima'],
        'known_finding_hits': dict(known_counts),
        'known_findings_reproduced': [f['id'] for f in live],
        'shards': len(shards),
        'inconclusive': problems,
    }
    if hasattr(mod, 'finish_coverage'):
        mod.finish_coverage(cov, m, tier)
    ev = {
        'property_id': prop, 'tier': tier, 'seed': seed, 'level': getattr(mod, 'LEVEL', 'exploration'),
        'coverage': cov,
        'assumptions': getattr(mod, 'ASSUMPTIONS', []),
        'wall_s': round(wall, 2), 'violations': len(violations),
        'repo': {'path': H.REPO, 'head': head, 'dirty': dirty},
        'technique': getattr(mod, 'TECHNIQUE', ''),
    }
    # evidence describes /repo; runs against another tree (seeded-change self-tests) write elsewhere
    evdir = os.environ.get('VERIF_EVIDENCE_DIR') or os.path.join(H.VERIF, 'evidence')
    os.makedirs(evdir, exist_ok=True)
    with open(os.path.join(evdir, prop + '.json'), 'w') as f:
        json.dump(ev, f, indent=1, sort_keys=True, default=str)
    print('%s %s seed=%d: %d evaluations, %d distinct non-trivial, %d violations, %d known-finding hits, '
          '%.1fs' % (prop, tier, seed, m['evaluations'], len(m['hashes']), len(violations),
                     sum(known_counts.values()), wall))
    if violations:
        return 1
    if problems or m['evaluations'] == 0 or len(m['hashes']) < 2:
        for p in problems or ['nothing observed']:
            print('INCONCLUSIVE property=%s reason=%s' % (prop, str(p)[:400].replace('\n', ' | ')))
        return 2
    return 0


if __name__ == '__main__':
    sys.exit(main(sys.argv[1:]))
