"""Set-theoretic evaluator for constraint expression ASTs (independent of pyasn1) + translation to pyasn1.

C ::= ('single', (v, ...)) | ('range', lo, hi) | ('size', lo, hi) | ('alpha', 'chars')
    | ('withc', ((field, 'present' | 'absent'), ...))
    | ('and', (C, ...)) | ('or', (C, ...)) | ('excl', (C, ...))        # non-empty operand lists only
    | ('chain', (C, ...))     # a derivation chain: T.subtype(C1).subtype(C2)...; denotes the intersection
Values are plain python: int, str, bytes, (nbits, int) for BIT STRING, list for SEQUENCE OF, dict for SEQUENCE.
('excl', Cs) admits exactly the values that none of the Cs admits (pyasn1's ConstraintsExclusion)."""


def size_of(value):
    if isinstance(value, tuple) and len(value) == 2 and isinstance(value[0], int):
        return value[0]          # BIT STRING: number of bits
    return len(value)


def admits(C, value):
    k = C[0]
    if k == 'single':
        return value in C[1]
    if k == 'range':
        return C[1] <= value <= C[2]
    if k == 'size':
        return C[1] <= size_of(value) <= C[2]
    if k == 'alpha':
        return set(value) <= set(C[1])
    if k == 'withc':
        for field, want in C[1]:
            present = field in value
            if (want == 'present') != present:
                return False
        return True
    if k in ('and', 'chain'):
        return all(admits(c, value) for c in C[1])
    if k == 'or':
        return any(admits(c, value) for c in C[1])
    if k == 'excl':
        return not any(admits(c, value) for c in C[1])
    raise ValueError(C)


def to_pyasn1(C):
    from pyasn1.type import constraint as pc
    k = C[0]
    if k == 'single':
        return pc.SingleValueConstraint(*C[1])
    if k == 'range':
        return pc.ValueRangeConstraint(C[1], C[2])
    if k == 'size':
        return pc.ValueSizeConstraint(C[1], C[2])
    if k == 'alpha':
        return pc.PermittedAlphabetConstraint(*C[1])
    if k == 'withc':
        return pc.WithComponentsConstraint(*[
            (f, pc.ComponentPresentConstraint() if w == 'present' else pc.ComponentAbsentConstraint())
            for f, w in C[1]])
    if k in ('and', 'chain'):
        return pc.ConstraintsIntersection(*[to_pyasn1(c) for c in C[1]])
    if k == 'or':
        return pc.ConstraintsUnion(*[to_pyasn1(c) for c in C[1]])
    if k == 'excl':
        return pc.ConstraintsExclusion(*[to_pyasn1(c) for c in C[1]])
    raise ValueError(C)


def boundaries(C, out=None):
    """Numbers / sizes mentioned in the tree (candidates are drawn around them)."""
    out = set() if out is None else out
    k = C[0]
    if k == 'single':
        for v in C[1]:
            if isinstance(v, int):
                out.add(v)
    elif k in ('range', 'size'):
        out.add(C[1])
        out.add(C[2])
    elif k in ('and', 'or', 'excl', 'chain'):
        for c in C[1]:
            boundaries(c, out)
    return out


def show(C):
    k = C[0]
    if k in ('and', 'or', 'excl', 'chain'):
        return '%s(%s)' % (k, ', '.join(show(c) for c in C[1]))
    return '%s%r' % (k, C[1:] if len(C) > 2 else C[1])
