"""Schema/value universe U (DESIGN 2.1).  Independent of pyasn1.

Type AST (hashable tuples, literal_eval-able):
  ('bool',) ('int',) ('enum', ((name, num), ...)) ('bits',) ('octs',) ('null',) ('oid',) ('real',)
  ('char', Kind) ('useful', Kind)
  ('seq', ((name, T, 'req'|'opt'|'def', default|None), ...))   ('set', same)
  ('seqof', T) ('setof', T) ('choice', ((name, T), ...)) ('any',)
  ('tag', 'I'|'E', 'A'|'C'|'P', number, T)

Values (plain python):
  bool | int | (nbits, intvalue) | bytes | None | tuple(arcs) | real | str | dict | list | (alt, v) | bytes(TLV)
  real ::= 0 | 'inf' | '-inf' | ('r', m, base, e)   with m != 0, base in (2, 10)
  SEQUENCE/SET dict: absent OPTIONALs are missing, DEFAULTs are always materialised.
"""
import hashlib
import random

CHAR_KINDS = {
    # name: (universal tag number, python codec, alphabet generator id)
    'UTF8String': (12, 'utf-8', 'uni'),
    'NumericString': (18, 'us-ascii', 'num'),
    'PrintableString': (19, 'us-ascii', 'print'),
    'TeletexString': (20, 'iso-8859-1', 'latin'),
    'T61String': (20, 'iso-8859-1', 'latin'),
    'VideotexString': (21, 'iso-8859-1', 'latin'),
    'IA5String': (22, 'us-ascii', 'ascii'),
    'GraphicString': (25, 'iso-8859-1', 'latin'),
    'VisibleString': (26, 'us-ascii', 'print'),
    'ISO646String': (26, 'us-ascii', 'print'),
    'GeneralString': (27, 'iso-8859-1', 'latin'),
    'UniversalString': (28, 'utf-32-be', 'uni'),
    'BMPString': (30, 'utf-16-be', 'bmp'),
}
USEFUL_KINDS = {
    'ObjectDescriptor': (7, 'iso-8859-1', 'latin'),
    'GeneralizedTime': (24, 'us-ascii', 'gtime'),
    'UTCTime': (23, 'us-ascii', 'utime'),
}
UNIV_NUM = {'bool': 1, 'int': 2, 'bits': 3, 'octs': 4, 'null': 5, 'oid': 6, 'real': 9, 'enum': 10,
            'seq': 16, 'seqof': 16, 'set': 17, 'setof': 17}
CLASS_BITS = {'U': 0x00, 'A': 0x40, 'C': 0x80, 'P': 0xC0}
SIMPLE = ('bool', 'int', 'enum', 'bits', 'octs', 'null', 'oid', 'real', 'char', 'useful')
STRINGISH = ('bits', 'octs', 'char', 'useful')
CONSTRUCTED = ('seq', 'set', 'seqof', 'setof')
WILD = ('*',)

TAG_NUMBERS = [0, 1, 2, 3, 5, 30, 31, 32, 127, 128, 16383, 16384, 2 ** 32, 2 ** 64]


def text_codec(T):
    if T[0] == 'char':
        return CHAR_KINDS[T[1]][1]
    return USEFUL_KINDS[T[1]][1]


def univ_tag(T):
    k = T[0]
    if k == 'char':
        return CHAR_KINDS[T[1]][0]
    if k == 'useful':
        return USEFUL_KINDS[T[1]][0]
    return UNIV_NUM[k]


def base_of(T):
    while T[0] == 'tag':
        T = T[4]
    return T


def is_untagged_open(T):
    """True for types that have no tag of their own: untagged CHOICE and ANY."""
    return T[0] in ('choice', 'any')


def outer_tags(T):
    """Set of possible outermost (class, number) on the wire; WILD for an untagged ANY."""
    k = T[0]
    if k == 'tag':
        return {(T[2], T[3])}
    if k == 'choice':
        s = set()
        for _, a in T[1]:
            s |= outer_tags(a)
        return s
    if k == 'any':
        return {WILD}
    return {('U', univ_tag(T))}


def tag_stack(T, v=None):
    """List of (class, number, constructed) outermost -> innermost as X.690 puts them on the wire,
    followed by the base type.  For an untagged CHOICE the chosen alternative is followed."""
    out = []
    pending = None  # implicit tag waiting to replace the next tag
    while True:
        k = T[0]
        if k == 'tag':
            mode, c, n, inner = T[1:]
            if mode == 'E' or is_untagged_open(inner):
                out.append((pending or (c, n)) + (True,))
                pending = None
            else:
                pending = pending or (c, n)
            T = inner
            continue
        if k == 'choice':
            assert pending is None
            alt, av = v
            T = dict(T[1])[alt]
            v = av
            continue
        if k == 'any':
            assert pending is None
            return out, T
        cons = k in CONSTRUCTED
        out.append((pending or ('U', univ_tag(T))) + (cons,))
        return out, T


# ---------------------------------------------------------------- legality

class Illegal(Exception):
    pass


def _disjoint(sets, what):
    seen = set()
    for s in sets:
        if WILD in s or (WILD in seen):
            if seen and s:
                raise Illegal('wildcard conflict in %s' % what)
        if seen & s:
            raise Illegal('tag clash in %s: %r' % (what, seen & s))
        seen |= s


def check_legal(T, top=True, pos='top'):
    """Raise Illegal unless T is a type pyasn1 (and X.680) can be expected to handle."""
    k = T[0]
    if k == 'tag':
        mode, c, n, inner = T[1:]
        if c not in ('A', 'C', 'P') or n < 0:
            raise Illegal('bad tag')
        if inner[0] == 'tag' and base_of(inner)[0] == 'any':
            raise Illegal('ANY under more than one tag')
        if mode == 'I' and is_untagged_open(inner):
            raise Illegal('IMPLICIT over untagged CHOICE/ANY must be written EXPLICIT')
        check_legal(inner, False, 'tagged')
    elif k in ('seq', 'set'):
        names = [f[0] for f in T[1]]
        if len(set(names)) != len(names):
            raise Illegal('duplicate names')
        for i, (name, ft, pres, dv) in enumerate(T[1]):
            if pres not in ('req', 'opt', 'def'):
                raise Illegal('presence')
            if base_of(ft)[0] == 'any':
                # pyasn1 gives every ANY (tagged or not) a wildcard tag map, so ANY is only generated in
                # the positions its documentation and tests use
                if k == 'set' or pres != 'req':
                    raise Illegal('ANY only as mandatory SEQUENCE component')
                if i and T[1][i - 1][2] != 'req':
                    raise Illegal('ANY after OPTIONAL/DEFAULT run')
                if any(base_of(g[1])[0] == 'any' for g in T[1][:i]):
                    raise Illegal('two ANY in one SEQUENCE')
            if base_of(ft)[0] == 'choice' and _has_any_alt(base_of(ft)):
                raise Illegal('ANY inside CHOICE')
            check_legal(ft, False, 'field')
            if pres == 'def' and dv is None and base_of(ft)[0] != 'null':
                raise Illegal('DEFAULT without value')
        if k == 'set':
            _disjoint([outer_tags(f[1]) for f in T[1]], 'SET')
        else:
            run = []
            for name, ft, pres, dv in T[1]:
                run.append(outer_tags(ft))
                if pres == 'req':
                    _disjoint(run, 'SEQUENCE optional run')
                    run = []
            _disjoint(run, 'SEQUENCE trailing optional run')
    elif k in ('seqof', 'setof'):
        check_legal(T[1], False, 'element')
    elif k == 'choice':
        if not T[1]:
            raise Illegal('empty CHOICE')
        names = [a[0] for a in T[1]]
        if len(set(names)) != len(names):
            raise Illegal('duplicate names')
        for _, a in T[1]:
            if base_of(a)[0] == 'any':
                raise Illegal('ANY inside CHOICE')
            check_legal(a, False, 'alt')
        _disjoint([outer_tags(a) for _, a in T[1]], 'CHOICE')
    elif k == 'enum':
        if not T[1]:
            raise Illegal('empty ENUMERATED')
    return True


def _has_any_alt(T):
    return any(base_of(a)[0] == 'any' for _, a in T[1])


def is_legal(T):
    try:
        check_legal(T)
        return True
    except Illegal:
        return False


# ---------------------------------------------------------------- canonical form / hashing

def real_norm(r):
    """Exact normal form of a real value without materialising base**e."""
    if r in (0, 'inf', '-inf'):
        return r
    _, m, b, e = r
    if m == 0:
        return 0
    while m % b == 0:
        m //= b
        e += 1
    if b == 10:
        # a base-10 value that is a dyadic rational could equal a base-2 one; keep bases apart
        # unless the exponent is >= 0 (an integer): compare integers exactly when small enough
        pass
    return ('r', m, b, e)


def real_equal(a, b):
    """Exact equality of two real values (cross-base comparison done with integers)."""
    a, b = real_norm(a), real_norm(b)
    if a == b:
        return True
    if not (isinstance(a, tuple) and isinstance(b, tuple)):
        return False
    _, m1, b1, e1 = a
    _, m2, b2, e2 = b
    if (m1 < 0) != (m2 < 0):
        return False
    if b1 == b2:
        return False  # normal forms differ
    # m1*b1^e1 == m2*b2^e2 ; only attempt when exponents are small
    if max(abs(e1), abs(e2)) > 2000:
        return False
    from fractions import Fraction
    return Fraction(m1) * Fraction(b1) ** e1 == Fraction(m2) * Fraction(b2) ** e2


def real_is_huge(r):
    """True when the value cannot be held by a Python float (the library compares REALs as floats)."""
    if not isinstance(r, tuple):
        return False
    _, m, b, e = r
    import math
    try:
        mag = math.log10(abs(m)) + e * math.log10(b)
    except ValueError:
        return False
    return mag > 300 or mag < -300


def materialised_empty(B):
    """Value of an all-optional record after the library has instantiated it: DEFAULTs present."""
    return dict((f[0], f[3]) for f in B[1] if f[2] == 'def')


def canon(T, v):
    """Canonical, hashable, order-normalised form of value v of type T (SET OF as sorted multiset,
    reals normalised).  Two values are 'the same abstract content' iff their canon() are equal."""
    k = T[0]
    if k == 'tag':
        return canon(T[4], v)
    if k == 'real':
        return real_norm(v)
    if k in ('seq', 'set'):
        out = []
        for name, ft, pres, dv in T[1]:
            if name in v:
                out.append((name, canon(ft, v[name])))
        return ('rec', tuple(out))
    if k == 'seqof':
        return ('list', tuple(canon(T[1], x) for x in v))
    if k == 'setof':
        return ('mset', tuple(sorted((canon(T[1], x) for x in v), key=repr)))
    if k == 'choice':
        alt, av = v
        return ('alt', alt, canon(dict(T[1])[alt], av))
    if k == 'bits':
        return ('bits', v[0], v[1])
    if k == 'oid':
        return tuple(v)
    if k == 'bool':
        return bool(v)
    return v


def case_hash(*parts):
    return hashlib.sha1(repr(parts).encode()).hexdigest()[:12]


# ---------------------------------------------------------------- boundary catalogue

def boundary_ints():
    out = [0, 1, -1, 2, -2, 127, 128, -128, -129, 255, 256]
    for k in (1, 2, 3, 4, 7, 8, 9, 16, 32, 64, 128):
        p = 2 ** (8 * k - 1)
        out += [p, -p, p - 1, -p - 1, p + 1, -p + 1, 2 ** (8 * k), -(2 ** (8 * k)), 2 ** (8 * k) - 1]
    return out


BOUNDARY_INTS = boundary_ints()
BOUNDARY_LENGTHS_SMALL = [0, 1, 2, 3, 7, 8, 9, 126, 127, 128, 129, 255, 256, 257]
BOUNDARY_LENGTHS_BIG = [999, 1000, 1001, 1999, 2000, 2001, 2002]
BOUNDARY_ARCS = [0, 1, 39, 40, 47, 48, 127, 128, 16383, 16384, 2 ** 32, 2 ** 64]


def gen_int(rng):
    r = rng.random()
    if r < 0.45:
        return rng.choice(BOUNDARY_INTS)
    if r < 0.8:
        return rng.randint(-300, 300)
    bits = rng.choice([15, 16, 17, 31, 32, 33, 63, 64, 65, 200, 1024])
    x = rng.getrandbits(bits)
    return -x if rng.random() < 0.5 else x


def gen_len(rng, big_ok):
    r = rng.random()
    if r < 0.55:
        return rng.randint(0, 12)
    if r < 0.9 or not big_ok:
        return rng.choice(BOUNDARY_LENGTHS_SMALL)
    return rng.choice(BOUNDARY_LENGTHS_BIG)


def gen_bytes(rng, n):
    mode = rng.random()
    if mode < 0.2:
        return bytes([rng.choice([0, 0xff, 0x80, 0x30])]) * n
    if mode < 0.4:
        # structural-looking content (tags, EOO) to stress framing
        return bytes(rng.choice([0, 0, 0x30, 0x80, 0x04, 0x24, 0xa0, 1, 2, 0xff]) for _ in range(n))
    return bytes(rng.getrandbits(8) for _ in range(n))


_ALPHA = {
    'num': '0123456789 ',
    'print': "ABCXYZabcxyz0189 '()+,-./:=?",
    'ascii': ''.join(chr(c) for c in range(0, 128)),
    'latin': ''.join(chr(c) for c in list(range(32, 127)) + list(range(160, 256))),
    'bmp': 'AZaz09 éÿĀЖ中￮',
    'uni': 'AZaz09 éЖ中￮\U0001F600\U00010348',
}
# code points that text-handling code likes to treat specially (byte-order mark and its mirror image, NUL, the ends of
# the BMP and of the surrogate gap, the last code point): legal characters of the Unicode string types all the same
_SPECIAL = {
    'bmp': '\ufeff\ufffe\x00\uffff\ud7ff\ue000\u0080\u07ff\u0800',
    'uni': '\ufeff\ufffe\x00\uffff\ud7ff\ue000\u0080\u07ff\u0800\U00010000\U0010ffff',
    'latin': '\xa0\xff\xad',
    'ascii': '\x00\x7f\r\n',
}


def gen_text(rng, T, big_ok):
    kinds = CHAR_KINDS if T[0] == 'char' else USEFUL_KINDS
    alpha = kinds[T[1]][2]
    if alpha == 'gtime':
        return gen_gtime(rng)
    if alpha == 'utime':
        return gen_utime(rng)
    n = gen_len(rng, big_ok)
    a = _ALPHA[alpha]
    out = [rng.choice(a) for _ in range(n)]
    sp = _SPECIAL.get(alpha)
    if sp and n and rng.random() < 0.3:
        # first, last or some inner character is one of the special code points
        out[rng.choice([0, 0, -1, rng.randrange(n)])] = rng.choice(sp)
    return ''.join(out)


def gen_gtime(rng):
    """Canonical UTC GeneralizedTime strings (other forms live in C20)."""
    y = rng.choice([1, 99, 1000, 1970, 1999, 2000, 2024, 9999])
    s = '%04d%02d%02d%02d%02d%02d' % (y, rng.randint(1, 12), rng.randint(1, 28), rng.randint(0, 23),
                                      rng.randint(0, 59), rng.randint(0, 59))
    if rng.random() < 0.4:
        s += '.' + rng.choice(['1', '12', '123', '5', '05', '005', '105', '999'])
    return s + 'Z'


def gen_utime(rng):
    s = '%02d%02d%02d%02d%02d%02d' % (rng.randint(0, 99), rng.randint(1, 12), rng.randint(1, 28),
                                      rng.randint(0, 23), rng.randint(0, 59), rng.randint(0, 59))
    return s + 'Z'


def gen_oid(rng):
    first = rng.choice([0, 1, 2])
    if first < 2:
        second = rng.choice([0, 1, 5, 39])
    else:
        second = rng.choice([0, 1, 39, 40, 47, 48, 100, 999, 2 ** 32])
    n = rng.choice([0, 1, 2, 3, 6])
    arcs = []
    for _ in range(n):
        arcs.append(rng.choice(BOUNDARY_ARCS) if rng.random() < 0.5 else rng.randint(0, 300))
    return (first, second) + tuple(arcs)


def gen_real(rng, allow_decimal=True):
    r = rng.random()
    if r < 0.1:
        return 0
    if r < 0.2:
        return rng.choice(['inf', '-inf'])
    base = 10 if (allow_decimal and rng.random() < 0.35) else 2
    m = rng.choice([1, 3, 5, 7, 123, 255, 257, 65535, 2 ** 52 + 1, 2 ** 64 + 1]) if rng.random() < 0.6 \
        else rng.randint(1, 10 ** 6)
    if base == 2 and rng.random() < 0.3:
        m *= rng.choice([2, 4, 8, 16, 64])
    if base == 10:
        while m % 10 == 0:
            m //= 10
    if rng.random() < 0.5:
        m = -m
    e = rng.choice([0, 1, -1, 2, -2, 7, 8, -8, 127, 128, -128, -129, 255, 256, 1023, -1074, 32767, 32768,
                    -32768, -32769, 65536]) if rng.random() < 0.6 else rng.randint(-40, 40)
    if base == 10:
        e = max(-300, min(300, e))
    return ('r', m, base, e)


def gen_bits(rng, big_ok):
    r = rng.random()
    if r < 0.6:
        n = rng.randint(0, 26)
    else:
        n = 8 * gen_len(rng, big_ok) + rng.randint(0, 7)
    mode = rng.random()
    if mode < 0.25:
        x = 0
    elif mode < 0.4:
        x = (1 << n) - 1 if n else 0
    elif mode < 0.55:
        x = rng.getrandbits(max(1, n // 2)) if n else 0  # leading zero bits
    else:
        x = rng.getrandbits(n) if n else 0
    return (n, x)


# ---------------------------------------------------------------- type generator

class GenOpts(object):
    def __init__(self, depth=3, fanout=4, allow_any=True, allow_implicit=True, allow_tags=True,
                 allow_real=True, allow_decimal_real=True, big_strings=False, allow_choice=True,
                 allow_set=True, allow_setof=True, allow_useful=True, allow_char=True,
                 allow_default=True, allow_optional=True, max_tag_stack=3, big_tag_numbers=True,
                 p_constructed_default=0.04,
                 avoid=None):
        self.__dict__.update(locals())
        del self.__dict__['self']
        self.avoid = avoid or set()


SIMPLE_POOL = ['bool', 'int', 'int', 'enum', 'bits', 'octs', 'octs', 'null', 'oid', 'real', 'char', 'char',
               'useful']


def gen_simple(rng, o):
    while True:
        k = rng.choice(SIMPLE_POOL)
        if k == 'real' and not o.allow_real:
            continue
        if k == 'char' and not o.allow_char:
            continue
        if k == 'useful' and not o.allow_useful:
            continue
        break
    if k == 'enum':
        nums = rng.sample([0, 1, 2, 5, 127, 128, -1, -129, 65536], rng.randint(1, 4))
        return ('enum', tuple(('e%d' % i, n) for i, n in enumerate(nums)))
    if k == 'char':
        return ('char', rng.choice(sorted(CHAR_KINDS)))
    if k == 'useful':
        return ('useful', rng.choice(sorted(USEFUL_KINDS)))
    if k == 'bits' and rng.random() < 0.2:
        return ('bits', (('b0', 0), ('b2', 2), ('b7', 7)))          # BIT STRING { b0(0), b2(2), b7(7) }
    if k == 'int' and rng.random() < 0.15:
        return ('int', (('zero', 0), ('one', 1), ('big', 255)))     # INTEGER { zero(0), one(1), big(255) }
    return (k,)


def gen_tag_number(rng, o, used):
    for _ in range(50):
        if o.big_tag_numbers and rng.random() < 0.25:
            n = rng.choice(TAG_NUMBERS)
        else:
            n = rng.randint(0, 12)
        c = rng.choice('CCCAP')
        if (c, n) not in used:
            return c, n
    n = 1000 + len(used)
    return 'C', n


def wrap_tags(rng, o, T, used=None, force=False):
    """Put 0..max_tag_stack tags around T (fresh numbers w.r.t. `used`)."""
    if not o.allow_tags:
        return T
    used = used if used is not None else set()
    n = 0
    r = rng.random()
    if force:
        n = 1
    if r < 0.35:
        n = max(n, 1)
    elif r < 0.45:
        n = max(n, 2)
    elif r < 0.5:
        n = max(n, o.max_tag_stack)
    n = min(n, o.max_tag_stack)
    for _ in range(n):
        c, num = gen_tag_number(rng, o, used)
        mode = 'E'
        if o.allow_implicit and rng.random() < 0.5 and not is_untagged_open(T):
            mode = 'I'
        T = ('tag', mode, c, num, T)
    if n:
        used.add((T[2], T[3]))
    return T


def gen_type(rng, o, depth=None, ctx='top'):
    """Random legal type.  ctx in top|field|elem|alt|anyok"""
    depth = o.depth if depth is None else depth
    for _ in range(200):
        T = _gen_type(rng, o, depth, ctx)
        if is_legal(T):
            return T
    return ('int',)


def _gen_type(rng, o, depth, ctx):
    r = rng.random()
    if depth <= 0 or r < 0.35:
        if o.allow_any and ctx in ('top', 'elem') and rng.random() < 0.06:
            T = ('any',)
            if rng.random() < 0.5:
                c_, n_ = gen_tag_number(rng, o, set())
                T = ('tag', 'E', c_, n_, T)
            return T
        return wrap_tags(rng, o, gen_simple(rng, o))
    kinds = ['seq', 'seq', 'seqof']
    if o.allow_set:
        kinds.append('set')
    if o.allow_setof:
        kinds.append('setof')
    if o.allow_choice:
        kinds += ['choice']
    k = rng.choice(kinds)
    if k in ('seqof', 'setof'):
        inner = _gen_type(rng, o, depth - 1, 'elem')
        return wrap_tags(rng, o, (k, inner))
    if k == 'choice':
        n = rng.randint(1, o.fanout)
        alts = []
        used = set()
        for i in range(n):
            a = _gen_member(rng, o, depth - 1, used, 'alt')
            alts.append(('a%d' % i, a))
        T = ('choice', tuple(alts))
        return wrap_tags(rng, o, T)
    # seq / set
    n = rng.choice([0, 1, 1, 2, 2, 3, 3, 4][:2 + 2 * o.fanout])
    fields = []
    used = set()
    prev_req = True
    reuse_tags = rng.random() < 0.6
    for i in range(n):
        pres = 'req'
        pr = rng.random()
        if o.allow_optional and pr < 0.3:
            pres = 'opt'
        elif o.allow_default and pr < 0.45:
            pres = 'def'
        ft = None
        if (o.allow_any and k == 'seq' and pres == 'req' and prev_req and rng.random() < 0.05
                and not (fields and fields[-1][1][0] == 'any')):
            ft = ('any',)
            if rng.random() < 0.4:
                c_, n_ = gen_tag_number(rng, o, used)
                ft = ('tag', 'E', c_, n_, ft)
                used.add((c_, n_))
        if ft is None:
            # DEFAULT values are mostly of simple types; constructed / CHOICE defaults are rare (they
            # sit in the zone of a known finding: the library's `==` on containers)
            md = depth - 1
            if pres == 'def' and rng.random() >= o.p_constructed_default:
                md = 0
            for _ in range(20):
                ft = _gen_member(rng, o, md, used, 'field')
                if pres != 'def' or md or base_of(ft)[0] in SIMPLE:
                    break
        dv = None
        if pres == 'def':
            dv = gen_value(rng, ft, o, small=True)
            if base_of(ft)[0] == 'real' and isinstance(dv, tuple) and rng.random() >= o.p_constructed_default:
                dv = ('r', dv[1], dv[2], max(-300, min(300, dv[3])))
        fields.append(('f%d' % i, ft, pres, dv))
        prev_req = pres == 'req'
        if k == 'seq' and prev_req and reuse_tags:
            # X.680 only wants the tags of a run of OPTIONAL/DEFAULT components and of the mandatory component that
            # ends it to differ: behind a mandatory component the same tags may come again (a INTEGER OPTIONAL,
            # b BOOLEAN, c INTEGER OPTIONAL), which is what real-world schemas do all the time
            used.clear()
    T = (k, tuple(fields))
    return wrap_tags(rng, o, T)


def _gen_member(rng, o, depth, used, ctx):
    """A member type whose outer tags are fresh within the enclosing scope (conservative: distinct from
    every sibling, which is stronger than X.680 requires for SEQUENCE)."""
    for _ in range(30):
        T = _gen_type(rng, o, depth, ctx)
        tags = outer_tags(T)
        if WILD in tags:
            continue
        if tags & used or not o.allow_tags:
            if not o.allow_tags:
                if tags & used:
                    continue
            else:
                T = wrap_tags(rng, o, T, used, force=True)
                tags = outer_tags(T)
                if tags & used:
                    continue
        used |= tags
        return T
    # fall back: explicit context tag with a fresh number
    n = 200 + len(used)
    used.add(('C', n))
    return ('tag', 'E', 'C', n, ('int',))


# ---------------------------------------------------------------- value generator

def gen_value(rng, T, o, small=False, any_maker=None):
    k = T[0]
    big = o.big_strings and not small
    if k == 'tag':
        return gen_value(rng, T[4], o, small, any_maker)
    if k == 'bool':
        return rng.random() < 0.5
    if k == 'int':
        return gen_int(rng)
    if k == 'enum':
        return rng.choice(T[1])[1]
    if k == 'bits':
        return gen_bits(rng, big)
    if k == 'octs':
        return gen_bytes(rng, gen_len(rng, big))
    if k == 'null':
        return None
    if k == 'oid':
        return gen_oid(rng)
    if k == 'real':
        return gen_real(rng, o.allow_decimal_real)
    if k in ('char', 'useful'):
        return gen_text(rng, T, big)
    if k in ('seq', 'set'):
        out = {}
        for name, ft, pres, dv in T[1]:
            if pres == 'opt' and rng.random() < 0.5:
                continue
            if pres == 'def' and rng.random() < 0.5:
                out[name] = dv
                continue
            out[name] = gen_value(rng, ft, o, small, any_maker)
        return out
    if k in ('seqof', 'setof'):
        n = rng.choice([0, 1, 1, 2, 3, 5] if not small else [0, 1, 2])
        return [gen_value(rng, T[1], o, True if n > 2 else small, any_maker) for _ in range(n)]
    if k == 'choice':
        name, a = rng.choice(T[1])
        return (name, gen_value(rng, a, o, small, any_maker))
    if k == 'any':
        if any_maker is None:
            from . import refx690
            any_maker = refx690.default_any_maker
        return any_maker(rng)
    raise ValueError(T)


def gen_case(rng, o):
    T = gen_type(rng, o)
    v = gen_value(rng, T, o)
    return T, v


# ---------------------------------------------------------------- structural features (for zones / evidence)

class _TypeOnly(set):
    """Feature sink for parts of the type that the value does not use (absent OPTIONAL, alternative not
    chosen, element type of an empty list): only 'type:*' features are kept."""

    def __init__(self, target):
        set.__init__(self)
        self.target = target

    def add(self, name):
        if name.startswith('type:'):
            self.target.add(name)


ABSENT = ('<absent>',)


def type_features(T, v=None, feats=None, depth=0, under=()):
    """Set of structural feature names of a case; used for known-finding zones and evidence histograms.
    Features other than 'type:*' describe what the value actually contains."""
    feats = set() if feats is None else feats
    if v is ABSENT and not isinstance(feats, _TypeOnly):
        feats = _TypeOnly(feats)
    k = T[0]
    if k == 'tag':
        stack = []
        t = T
        while t[0] == 'tag':
            stack.append(t)
            t = t[4]
        modes = ''.join(x[1] for x in stack)
        feats.add('tagged')
        if 'E' in modes:
            feats.add('explicit-tag')
        if 'I' in modes:
            feats.add('implicit-tag')
        if len(stack) > 1:
            feats.add('tag-stack>=2')
        if any(x[3] >= 31 for x in stack):
            feats.add('long-tag-number')
        b = t[0]
        if 'E' in modes:
            feats.add('explicit-over:' + b)
            if b in ('bool', 'int', 'enum', 'null', 'oid', 'real'):
                feats.add('explicit-over-nonstring-primitive')
            if b == 'any':
                feats.add('explicit-over-any')
                if len(stack) > 1:
                    feats.add('any-under>=2-tags')
            if b == 'choice':
                feats.add('explicit-over-choice')
        return type_features(t, v, feats, depth, under)
    feats.add('type:' + k + ((':' + T[1]) if k in ('char', 'useful') else ''))
    feats.add('depth>=%d' % depth) if depth in (2, 4) else None
    if k in ('seq', 'set'):
        for name, ft, pres, dv in T[1]:
            feats.add(k + '-has-' + pres)
            sub = v.get(name) if isinstance(v, dict) else None
            if pres == 'opt':
                b = base_of(ft)
                if b[0] in ('seq', 'set') and b[1] and all(f[2] != 'req' for f in b[1]):
                    feats.add('optional-emptyable-record')
                    if isinstance(v, dict) and name not in v:
                        feats.add('absent-optional-emptyable-record')
                    elif isinstance(v, dict) and not any(g[0] in v[name] and not (
                            g[2] == 'def' and canon(g[1], v[name][g[0]]) == canon(g[1], g[3])) for g in b[1]):
                        feats.add('present-optional-record-encodes-empty')
                if b[0] in ('seqof', 'setof'):
                    feats.add('optional-seqof')
                    if sub == []:
                        feats.add('optional-seqof-present-empty')
                if isinstance(v, dict) and name not in v:
                    feats.add('optional-absent')
            if pres == 'def':
                if isinstance(v, dict) and name in v and dv is not None and canon(ft, v[name]) == canon(ft, dv):
                    feats.add('default-equal')
                b = base_of(ft)
                if b[0] in CONSTRUCTED:
                    feats.add('default-constructed')
                elif b[0] == 'choice':
                    feats.add('default-choice')
                elif b[0] == 'real' and (real_is_huge(dv) or
                                         (isinstance(v, dict) and real_is_huge(v.get(name)))):
                    feats.add('default-real-huge')
            if isinstance(v, dict) and name not in v and 'absent-optional-emptyable-record' in feats \
                    and pres == 'opt' and base_of(ft)[0] in ('seq', 'set') and base_of(ft)[1] \
                    and all(f[2] != 'req' for f in base_of(ft)[1]):
                # the library materialises such a component on any read: its subtree is live
                type_features(ft, materialised_empty(base_of(ft)), feats, depth + 1, under + (k,))
            elif isinstance(v, dict) and name not in v or v is ABSENT:
                type_features(ft, ABSENT, feats, depth + 1, under + (k,))
            else:
                type_features(ft, sub, feats, depth + 1, under + (k,))
        if not T[1]:
            feats.add('empty-record-type')
    elif k in ('seqof', 'setof'):
        if isinstance(v, list):
            if not v:
                feats.add('empty-' + k)
            for x in v[:6]:
                type_features(T[1], x, feats, depth + 1, under + (k,))
            if not v:
                type_features(T[1], ABSENT, feats, depth + 1, under + (k,))
        else:
            type_features(T[1], ABSENT if v is ABSENT else None, feats, depth + 1, under + (k,))
    elif k == 'choice':
        if under:
            feats.add('choice-in-' + under[-1])
        for name, a in T[1]:
            if isinstance(v, tuple) and v and v[0] == name:
                feats.add('chosen:' + base_of(a)[0])
                type_features(a, v[1], feats, depth + 1, under + (k,))
            else:
                type_features(a, ABSENT, feats, depth + 1, under + (k,))
    elif k == 'any':
        if under:
            feats.add('any-in-' + under[-1])
    elif k == 'real' and v is not None and v is not ABSENT:
        if isinstance(v, tuple):
            feats.add('real-base%d' % v[2])
        elif v == 0:
            feats.add('real-zero')
        else:
            feats.add('real-inf')
    elif k in ('octs', 'char', 'useful') and v is not None and v is not ABSENT:
        n = len(v)
        if n > 1000:
            feats.add('string>1000')
        if k != 'octs':
            try:
                if len(v.encode(text_codec(T))) != len(v):
                    feats.add('multibyte-text')
            except Exception:
                pass
    elif k == 'bits' and v is not None and v is not ABSENT:
        if v[0] > 8000:
            feats.add('string>1000')
        if v[0] == 0:
            feats.add('empty-bits')
    return feats


def show_type(T):
    """Compact ASN.1-ish rendering for evidence samples."""
    k = T[0]
    if k == 'tag':
        return '[%s %d] %s %s' % ({'A': 'APPLICATION', 'C': 'CONTEXT', 'P': 'PRIVATE'}[T[2]], T[3],
                                  'IMPLICIT' if T[1] == 'I' else 'EXPLICIT', show_type(T[4]))
    if k in ('seq', 'set'):
        return '%s { %s }' % (k.upper(), ', '.join(
            '%s %s%s' % (n, show_type(t), {'req': '', 'opt': ' OPTIONAL', 'def': ' DEFAULT %r' % (d,)}[p])
            for n, t, p, d in T[1]))
    if k in ('seqof', 'setof'):
        return '%s OF %s' % (k[:3].upper(), show_type(T[1]))
    if k == 'choice':
        return 'CHOICE { %s }' % ', '.join('%s %s' % (n, show_type(t)) for n, t in T[1])
    if k in ('char', 'useful'):
        return T[1]
    if k == 'enum':
        return 'ENUMERATED %r' % (dict(T[1]),)
    return k.upper()
