"""C17 Native-Python codec round trip and Python-value encoding equivalence (DESIGN 4/C17)."""
import math

from pyasn1.codec.ber import encoder as ber_encoder
from pyasn1.codec.cer import encoder as cer_encoder
from pyasn1.codec.der import encoder as der_encoder
from pyasn1.codec.native import decoder as native_decoder
from pyasn1.codec.native import encoder as native_encoder
from pyasn1 import error

from .. import universe as U
from .. import refx690 as R
from .. import build as B
from .. import harness as H
from . import common as C

ID = 'C17'
LEVEL = 'exploration'
TECHNIQUE = ('runtime monitoring: round-trip oracle through the native codec on abstract values, and byte-equality '
             'oracle between encoding a plain-Python tree with a type and encoding the equivalent value object')
RULE = ('cases = (T, v) from the universe (no ANY); arms: native.decode(native.encode(obj), T) vs v; for BER/CER/DER '
        'encode(tree, asn1Spec=T) vs encode(obj) with tree = native.encode(obj) and tree = the tree derived from v with '
        'absent OPTIONALs simply missing; non-trivial = constructed type; distinct = sha1 of (T, canon(v))')
ASSUMPTIONS = ['reals are compared as Python floats with relative tolerance 1e-12 (values beyond float range are not fed '
               'to the native arm)', 'universe legality rules']
KEY_FEATURES = ('arm', 'codec', 'tree')

ENC = (('BER', ber_encoder.encode), ('CER', cer_encoder.encode), ('DER', der_encoder.encode))


def plan(tier, seed):
    return C.plan_counts(tier, 16 * 18000, 16 * 120000)


def native_ok(T, v):
    """The native representation of a REAL is a float: keep out values a float cannot hold."""
    Bt = U.base_of(T)
    k = Bt[0]
    if k == 'real':
        if isinstance(v, tuple):
            if U.real_is_huge(v):
                return False
            try:
                f = float(v[1]) * float(v[2]) ** v[3]
            except OverflowError:
                return False
            if f in (float('inf'), float('-inf')) or (f == 0.0):
                return False
        return True
    if k in ('seq', 'set'):
        return all(native_ok(f[1], v[f[0]]) for f in Bt[1] if f[0] in v) and \
            all(native_ok(f[1], f[3]) for f in Bt[1] if f[2] == 'def')
    if k in ('seqof', 'setof'):
        return all(native_ok(Bt[1], x) for x in v)
    if k == 'choice':
        return native_ok(dict(Bt[1])[v[0]], v[1])
    return True


def approx_equal(T, a, b):
    """Abstract equality with reals compared as floats."""
    Bt = U.base_of(T)
    k = Bt[0]
    if k == 'real':
        fa, fb = B.real_float(a), B.real_float(b)
        if fa == fb:
            return True
        return math.isclose(fa, fb, rel_tol=1e-12, abs_tol=0.0)
    if k in ('seq', 'set'):
        if set(a) != set(b):
            return False
        return all(approx_equal(f[1], a[f[0]], b[f[0]]) for f in Bt[1] if f[0] in a)
    if k == 'seqof':
        return len(a) == len(b) and all(approx_equal(Bt[1], x, y) for x, y in zip(a, b))
    if k == 'setof':
        if len(a) != len(b):
            return False
        rest = list(b)
        for x in a:
            for i, y in enumerate(rest):
                if approx_equal(Bt[1], x, y):
                    del rest[i]
                    break
            else:
                return False
        return True
    if k == 'choice':
        return a[0] == b[0] and approx_equal(dict(Bt[1])[a[0]], a[1], b[1])
    return U.canon(T, a) == U.canon(T, b)


def huge_real_default_anywhere(T):
    """Does the type declare, at any depth, a DEFAULT holding a REAL beyond float range (wherever the value may
    lack the enclosing component)?"""
    k = T[0]
    if k == 'tag':
        return huge_real_default_anywhere(T[4])
    if k in ('seq', 'set'):
        for name, ft, pres, dv in T[1]:
            if pres == 'def' and not native_ok(ft, dv):
                return True
            if huge_real_default_anywhere(ft):
                return True
        return False
    if k in ('seqof', 'setof'):
        return huge_real_default_anywhere(T[1])
    if k == 'choice':
        return any(huge_real_default_anywhere(at) for _, at in T[1])
    return False


def reorder(tree):
    if isinstance(tree, dict):
        return dict((k, reorder(tree[k])) for k in reversed(list(tree)))
    if isinstance(tree, list):
        return [reorder(x) for x in tree]
    return tree


def check_case(res, T, v, bt=None):
    bt = bt or C.try_build(res, T, v)
    if bt is None:
        return
    feats0 = set(bt.feats)
    res.case(U.case_hash(T, bt.cv), U.base_of(T)[0] not in U.SIMPLE)
    if not native_ok(T, v) or 'default-real-huge' in feats0:
        res.see('skipped:real-outside-float-range')
        return
    # ---- arm 1: native round trip
    case = ('c17', T, v, 'native')
    feats = feats0 | {'arm:native'}
    tree = None
    try:
        tree = native_encoder.encode(bt.obj)
        back = native_decoder.decode(tree, asn1Spec=bt.schema)
        a = B.absval(back, T)
        if approx_equal(T, a, v):
            res.see('native-roundtrip-ok')
        else:
            res.witness('native:value-differs:' + C.diff_kind(T, v, a), feats, case, 'tree %r -> %r' % (tree, a))
    except B.NotAValue as ex:
        res.witness('native:not-a-value', feats, case, ex)
    except Exception as ex:
        c = H.classify_exception(ex)
        res.witness('native:raised:%s' % (c if not isinstance(c, tuple) else 'leak:' + c[1]), feats, case,
                    '%s on tree %r' % (ex, tree))
    # ---- arm 2: bare python value + asn1Spec encodes like the value object
    trees = [('derived', B.pytree(T, v))]
    # a mapping has no order: the same tree with every mapping's keys the other way round
    rev = reorder(trees[0][1])
    if repr(rev) != repr(trees[0][1]):
        trees.append(('derived-reordered', rev))
    if tree is not None and 'type:real' not in feats0:
        # a float does not say whether the REAL is base 2 or base 10: the native tree is only used as an
        # "equivalent" bare value where no REAL is involved
        trees.append(('native', tree))
    for codec, enc in ENC:
        try:
            want = enc(bt.obj)
        except Exception:
            res.see('skipped:value-object-not-encodable:' + codec)     # encoder findings are other properties' business
            continue
        for origin, tr in trees:
            case = ('c17', T, v, codec + ':' + origin)
            feats = feats0 | {'arm:bare', 'codec:' + codec, 'tree:' + origin}
            res.see('bare-encodes:%s:%s' % (codec, origin))
            try:
                got = enc(tr, asn1Spec=bt.schema)
            except Exception as ex:
                c = H.classify_exception(ex)
                res.witness('bare:%s:raised:%s' % (codec.lower(), c if not isinstance(c, tuple) else 'leak:' + c[1]),
                            feats, case, '%s on tree %r' % (ex, tr))
                continue
            if got != want:
                res.witness('bare:%s:bytes-differ' % codec.lower(), feats, case,
                            'tree %r: got %s want %s' % (tr, got.hex()[:300], want.hex()[:300]))
            else:
                res.see('bare-identical')
    if len(res.samples) < 4:
        res.sample(C.sample_of(T, v, tree=repr(trees[0][1])[:300]))


def run_shard(shard, tier, seed):
    res = H.Result(ID)
    rng = C.rng_for(seed, ID, shard['shard'])
    budget = C.Budget(tier)
    for i in range(shard['n']):
        if budget.expired(res):
            break
        T, v = C.gen_case(rng, tier, allow_any=False, big_strings=rng.random() < 0.05)
        try:
            check_case(res, T, v)
        except Exception:
            res.see('harness:error')
            if len(res.inconclusive) < 3:
                res.inconclusive.append('harness error: ' + H.fmt_exc())
    return res


def replay(case):
    if case[0] == 'enc':
        return C.replay_enc(ID, case)
    res = H.Result(ID)
    _, T, v, arm = case
    check_case(res, T, v)
    res.witnesses = [w for w in res.witnesses if "'%s')" % arm in w['case']]
    return res
