"""C12 Codec calls are pure: no effect on schemas, inputs, configuration or each other (DESIGN 4/C12)."""
import io
import os
import subprocess
import sys
import threading
import time

from pyasn1 import debug
from pyasn1 import error
from pyasn1.codec.ber import decoder as ber_decoder
from pyasn1.codec.ber import encoder as ber_encoder
from pyasn1.codec.cer import decoder as cer_decoder
from pyasn1.codec.cer import encoder as cer_encoder
from pyasn1.codec.der import decoder as der_decoder
from pyasn1.codec.der import encoder as der_encoder
from pyasn1.codec.native import decoder as native_decoder
from pyasn1.codec.native import encoder as native_encoder
from pyasn1.type import base as asn1base
from pyasn1.type import univ

from .. import universe as U
from .. import refx690 as R
from .. import build as B
from .. import harness as H
from .. import streams as S
from . import common as C

ID = 'C12'
LEVEL = 'exploration'
TECHNIQUE = ('runtime monitoring: semantic snapshots of schema / value arguments before and after every codec call '
             '(contracts on the real entry points, icontract when available), comparison of every call in a shared '
             'history with the same call on fresh objects, object-identity scan of result graphs, interleaved stepping '
             'of suspended streaming decoders, threads under a 1 microsecond switch interval and under a deterministic line-granular '
             'preemption scheduler (sys.monitoring), debug logging on/off (incl. open-type resolution over one shared schema), '
             'caller-owned openTypes maps compared before/after')
RULE = ('a case = (T, v) with a history of 12..30 codec calls (ber/cer/der/native encode and decode, streaming decode, '
        'calls that fail on damaged input) sharing ONE schema object, ONE value object and the module-level codec '
        'singletons; arms: snapshots, isolation, aliasing (mutating one result must not move the spec or a sibling '
        'result), k <= 5 interleaved streaming decoders, 8 threads x 40 calls, logging on/off; non-trivial = constructed '
        'type; distinct = sha1 of (T, canon(v), arm)')
ASSUMPTIONS = ['thread schedules are only sampled (CPython has no race detector for Python-level state); switch interval '
               '1e-6 s, plus a LINE-event yield-injection run', 'snapshots read objects through public non-instantiating '
               'accessors only', 'calls inside zones of pinned encoder findings are compared with themselves (isolated run), '
               'not with the reference', 'interleaved streaming decoders read non-seekable doubles only up to '
               'io.DEFAULT_BUFFER_SIZE octets (beyond it the CachingStreamWrapper finding pinned under C11 applies)']
KEY_FEATURES = ('arm', 'call')

ENCODERS = {'ber': ber_encoder, 'cer': cer_encoder, 'der': der_encoder}
DECODERS = {'ber': ber_decoder, 'cer': cer_decoder, 'der': der_decoder}


def plan(tier, seed):
    ensure_deps()
    return C.plan_counts(tier, 16 * 600, 16 * 12000)


def ensure_deps():
    """icontract comes from the offline wheelhouse (setup.sh does the same); its absence only downgrades the
    contracts to plain wrappers."""
    deps = os.path.join(H.VERIF, '.deps')
    if not os.path.isdir(os.path.join(deps, 'icontract')):
        try:
            subprocess.run(['/venv/bin/pip', 'install', '--quiet', '--no-index', '--find-links',
                            '/opt/veriftools/wheels', '--target', deps, 'icontract'],
                           stdout=subprocess.DEVNULL, stderr=subprocess.DEVNULL, timeout=300)
        except Exception:
            pass


# ------------------------------------------------------------------ contracts on the real entry points

class Contracts(object):
    """Snapshot/ensure contracts wrapped around the real Encoder.__call__ / Decoder.__call__.  Conditions record
    and return True (a raise would abort the observed call); the property module reads the records."""

    def __init__(self):
        self.evaluations = 0
        self.broken = []
        self.kind = 'plain'
        self.installed = []

    def fp_arg(self, x):
        if isinstance(x, asn1base.Asn1Item):
            return B.fingerprint(x)
        return None

    def install(self):
        try:
            import icontract
            self.kind = 'icontract'
        except Exception:
            icontract = None
        me = self

        class PurityBroken(Exception):
            pass

        for name, mod in list(ENCODERS.items()):
            cls = mod.Encoder
            orig = cls.__dict__.get('__call__') or ber_encoder.Encoder.__call__
            if getattr(orig, '_verif_wrapped', False):
                continue

            def snap_value(pyObject, asn1Spec):
                return (me.fp_arg(pyObject), me.fp_arg(asn1Spec))

            def unchanged(pyObject, asn1Spec, OLD, result, name=name):
                me.evaluations += 1
                now = (me.fp_arg(pyObject), me.fp_arg(asn1Spec))
                if OLD is not None and now != OLD.args:
                    me.broken.append(('encoder-changed-its-argument', name))
                if not isinstance(result, bytes):
                    me.broken.append(('encoder-returned-non-bytes', name))
                return True

            if icontract is not None:
                wrapped = icontract.snapshot(snap_value, name='args')(
                    icontract.ensure(unchanged, error=PurityBroken)(orig))
            else:
                def make(orig=orig, snap_value=snap_value, unchanged=unchanged):
                    def wrapped(self, pyObject, asn1Spec=None, **options):
                        class O(object):
                            pass
                        old = O()
                        old.args = snap_value(pyObject, asn1Spec)
                        r = orig(self, pyObject, asn1Spec=asn1Spec, **options)
                        unchanged(pyObject, asn1Spec, old, r)
                        return r
                    return wrapped
                wrapped = make()
            wrapped._verif_wrapped = True
            cls.__call__ = wrapped
            self.installed.append((cls, orig))
        for name, mod in list(DECODERS.items()):
            cls = mod.Decoder
            orig_cm = cls.__dict__.get('__call__')
            if orig_cm is None:
                continue
            func = orig_cm.__func__
            if getattr(func, '_verif_wrapped', False):
                continue

            def make(func=func, name=name):
                def wrapped(kls, substrate, asn1Spec=None, **options):
                    before = me.fp_arg(asn1Spec)
                    sub_before = me.fp_arg(substrate)
                    r = func(kls, substrate, asn1Spec, **options)
                    me.evaluations += 1
                    if me.fp_arg(asn1Spec) != before:
                        me.broken.append(('decoder-changed-the-guiding-type', name))
                    if me.fp_arg(substrate) != sub_before:
                        me.broken.append(('decoder-changed-its-substrate-object', name))
                    return r
                wrapped._verif_wrapped = True
                return wrapped
            cls.__call__ = classmethod(make())
            self.installed.append((cls, orig_cm))

    def uninstall(self):
        for cls, orig in self.installed:
            cls.__call__ = orig
        self.installed = []


# ------------------------------------------------------------------ calls and their outcomes

def outcome_of(fn):
    try:
        r = fn()
    except Exception as ex:
        return ('raised', type(ex).__name__)
    return r


def render_decoded(T, r):
    d, rest = r
    try:
        return ('value', U.canon(T, B.absval(d, T)), rest)
    except B.NotAValue as ex:
        return ('not-a-value', str(ex)[:60], rest)


def make_calls(rng, T, v, ref_encs):
    """A list of call descriptors: (kind, codec, payload)."""
    calls = []
    for _ in range(rng.randint(12, 30)):
        r = rng.random()
        codec = rng.choice(['ber', 'ber', 'cer', 'der'])
        if r < 0.3:
            calls.append(('encode', codec, (rng.random() < 0.5, rng.choice([0, 0, 3, 1000])) if codec == 'ber' else None))
        elif r < 0.6:
            calls.append(('decode', codec, ref_encs[codec]))
        elif r < 0.7:
            calls.append(('decode-damaged', codec, C.mutate(rng, ref_encs[codec])[1]))
        elif r < 0.8:
            calls.append(('stream', codec, ref_encs[codec] * rng.choice([1, 2])))
        elif r < 0.83:
            # a call that brings its own tag map (another codec's table): an option of that one call
            calls.append(('decode-foreign-tagmap', codec, ref_encs[codec]))
        elif r < 0.85:
            calls.append(('native-encode', None, None))
        elif r < 0.92:
            calls.append(('encode-bare', codec, None))
        else:
            calls.append(('native-roundtrip', None, None))
    return calls


def run_call(call, T, schema, obj):
    kind, codec, payload = call
    if kind == 'encode':
        kw = dict(defMode=payload[0], maxChunkSize=payload[1]) if payload else {}
        return outcome_of(lambda: ENCODERS[codec].encode(obj, **kw))
    if kind == 'encode-bare':
        # a plain Python tree encoded against the shared schema object
        return outcome_of(lambda: ENCODERS[codec].encode(B.pytree(T, B.absval(obj, T)), asn1Spec=schema))
    if kind in ('decode', 'decode-damaged'):
        return outcome_of(lambda: render_decoded(T, DECODERS[codec].decode(payload, asn1Spec=schema)))
    if kind == 'decode-foreign-tagmap':
        other = DECODERS[{'ber': 'der', 'der': 'ber', 'cer': 'ber'}[codec]]
        return outcome_of(lambda: render_decoded(T, DECODERS[codec].decode(payload, asn1Spec=schema, tagMap=other.TAG_MAP)))
    if kind == 'stream':
        def go():
            out = []
            for x in DECODERS[codec].StreamingDecoder(io.BytesIO(payload), asn1Spec=schema):
                if isinstance(x, error.SubstrateUnderrunError):
                    out.append('underrun')
                    break
                out.append(render_decoded(T, (x, b''))[:2])
            return tuple(out)
        return outcome_of(go)
    if kind == 'native-encode':
        return outcome_of(lambda: repr(native_encoder.encode(obj)))
    if kind == 'native-roundtrip':
        return outcome_of(lambda: render_decoded(T, (native_decoder.decode(native_encoder.encode(obj), asn1Spec=schema), b'')))
    raise ValueError(kind)


def constructed_ids(obj, acc=None, depth=0):
    """ids of all mutable (constructed) ASN.1 objects reachable from obj through public accessors."""
    acc = set() if acc is None else acc
    if depth > 12 or not isinstance(obj, asn1base.ConstructedAsn1Type):
        return acc
    acc.add(id(obj))
    try:
        if isinstance(obj, univ.Choice):
            try:
                constructed_ids(obj.getComponent(), acc, depth + 1)
            except error.PyAsn1Error:
                pass
        elif isinstance(obj, univ.SequenceAndSetBase):
            n = len(obj.componentType) or len(obj)
            for i in range(n):
                c = obj.getComponentByPosition(i, default=None, instantiate=False)
                if c is not None:
                    constructed_ids(c, acc, depth + 1)
        else:
            for i in range(len(obj)):
                c = obj.getComponentByPosition(i, default=None, instantiate=False)
                if c is not None:
                    constructed_ids(c, acc, depth + 1)
    except Exception:
        pass
    return acc


def schema_ids(obj, acc=None, depth=0):
    """ids of the constructed schema objects making up a type (component types, recursively)."""
    acc = set() if acc is None else acc
    if depth > 12 or not isinstance(obj, asn1base.ConstructedAsn1Type):
        return acc
    acc.add(id(obj))
    ct = obj.componentType
    if isinstance(obj, univ.SequenceOfAndSetOfBase):
        if ct is not None:
            schema_ids(ct, acc, depth + 1)
    else:
        for nt in ct.namedTypes:
            schema_ids(nt.asn1Object, acc, depth + 1)
    return acc


def mutate_result(d, rng):
    """Aggressive mutation of a decoded result through its public API."""
    try:
        if isinstance(d, univ.SequenceOfAndSetOfBase):
            if len(d):
                c = d.getComponentByPosition(0, default=None, instantiate=False)
                if isinstance(c, asn1base.ConstructedAsn1Type):
                    mutate_result(c, rng)
            d.clear()
        elif isinstance(d, univ.Choice):
            try:
                mutate_result(d.getComponent(), rng)
            except error.PyAsn1Error:
                pass
            d.clear()
        elif isinstance(d, univ.SequenceAndSetBase):
            for i in range(len(d.componentType)):
                c = d.getComponentByPosition(i, default=None, instantiate=False)
                if isinstance(c, asn1base.ConstructedAsn1Type):
                    mutate_result(c, rng)
            d.clear()
    except Exception:
        pass


# ------------------------------------------------------------------ arms

def arm_history(res, rng, bt, contracts):
    T, v = bt.T, bt.v
    feats0 = set(bt.feats)
    try:
        ref_encs = {'ber': R.ber_variant(T, v, rng)[0], 'cer': R.cer(T, v), 'der': R.der(T, v)}
    except Exception:
        return
    calls = make_calls(rng, T, v, ref_encs)
    schema, obj = bt.schema, bt.obj
    # half of the histories run on a value whose DEFAULT components equal to their default were never set (the way
    # values are usually built): nothing a codec call does may make them appear
    omit = rng.random() < 0.5
    if omit:
        try:
            obj = B.value(T, v, route=B.OmitDefaults())
            feats0 = feats0 | {'defaults-left-absent'}
            res.see('histories-with-defaults-left-absent')
        except Exception:
            omit = False
    fp_s, fp_v = B.fingerprint(schema), B.fingerprint(obj)
    # what every call of the history returns BEFORE the history has run (fresh objects each): the codec singletons
    # and their tables are shared by the whole process, so a call that alters them shows up as a later call no
    # longer returning what it returned before - the isolated re-run after the history cannot see that, it runs on
    # the same altered singletons
    def fresh_value():
        return B.value(T, v, route=B.OmitDefaults()) if omit else B.value(T, v)
    try:
        baseline = [run_call(c, T, B.schema(T), fresh_value()) for c in calls]
    except Exception:
        baseline = None
    n_before = contracts.evaluations
    contracts.broken = []
    res.see('histories')
    for i, call in enumerate(calls):
        case = ('c12-history', T, v, i, tuple((c[0], c[1], c[2].hex() if isinstance(c[2], bytes) else c[2]) for c in calls[:i + 1]))
        feats = feats0 | {'arm:history', 'call:' + call[0]}
        shared = run_call(call, T, schema, obj)
        res.see('calls:' + call[0])
        if isinstance(shared, tuple) and shared and shared[0] == 'raised':
            res.see('calls-that-failed')
            res.see('call-raised:%s:%s' % (call[0], shared[1]))
        # isolation: the same call on fresh objects
        fresh_schema = B.schema(T)
        fresh_obj = B.value(T, v, route=B.OmitDefaults()) if omit else B.value(T, v)
        alone = run_call(call, T, fresh_schema, fresh_obj)
        res.see('isolation-comparisons')
        if baseline is not None and alone != baseline[i]:
            res.witness('outcome-differs-from-the-same-call-before-the-history:' + call[0], feats, case,
                        'before %r after %r' % (repr(baseline[i])[:200], repr(alone)[:200]))
            return
        if shared != alone:
            res.witness('outcome-differs-from-isolated-call:' + call[0], feats, case,
                        'shared %r alone %r' % (repr(shared)[:200], repr(alone)[:200]))
            return
        now_s = B.fingerprint(schema)
        if now_s != fp_s:
            res.witness('schema-changed-by:' + call[0], feats, case, 'after call %d' % i)
            return
        now_v = B.fingerprint(obj)
        if now_v != fp_v:
            res.witness('value-changed-by:' + call[0], feats, case, 'after call %d' % i)
            return
    for what, who in contracts.broken:
        res.witness('contract:' + what, feats0 | {'arm:history'}, ('c12-history', T, v, len(calls), ()), who)
    res.see('contract-evaluations', contracts.evaluations - n_before)
    res.see('histories-ok')


def arm_aliasing(res, rng, bt):
    T, v = bt.T, bt.v
    feats = set(bt.feats) | {'arm:aliasing'}
    case = ('c12-alias', T, v)
    try:
        e = R.der(T, v)
    except Exception:
        return
    schema = bt.schema
    fp_s = B.fingerprint(schema)
    try:
        d1, _ = ber_decoder.decode(e, asn1Spec=schema)
        d2, _ = ber_decoder.decode(e, asn1Spec=schema)
    except Exception:
        return
    res.see('aliasing-checks')
    ids1, ids2, ids_s = constructed_ids(d1), constructed_ids(d2), schema_ids(schema)
    if ids1 & ids2:
        res.witness('results-share-a-mutable-object', feats, case, '%d shared' % len(ids1 & ids2))
        return
    if (ids1 | ids2) & ids_s:
        res.witness('result-shares-a-mutable-object-with-the-type', feats, case, '%d shared' % len((ids1 | ids2) & ids_s))
        return
    fp2 = B.fingerprint(d2)
    mutate_result(d1, rng)
    if B.fingerprint(schema) != fp_s:
        res.witness('mutating-a-result-changed-the-type', feats, case, '')
        return
    if B.fingerprint(d2) != fp2:
        res.witness('mutating-a-result-changed-a-sibling-result', feats, case, '')
        return
    res.see('aliasing-ok')


def value_graph_ids(schema, acc=None, depth=0):
    """ids of the constructed objects inside the DEFAULT value objects a schema carries (recursively)."""
    acc = set() if acc is None else acc
    if depth > 12 or not isinstance(schema, asn1base.ConstructedAsn1Type):
        return acc
    ct = schema.componentType
    if isinstance(schema, univ.SequenceOfAndSetOfBase):
        if ct is not None:
            value_graph_ids(ct, acc, depth + 1)
    else:
        for nt in ct.namedTypes:
            if nt.isDefaulted:
                constructed_ids(nt.asn1Object, acc)
            value_graph_ids(nt.asn1Object, acc, depth + 1)
    return acc


def mutate_deep(d, depth=0):
    """Empty every constructed object reachable from d, innermost first."""
    if depth > 12 or not isinstance(d, asn1base.ConstructedAsn1Type):
        return
    try:
        if isinstance(d, univ.Choice):
            try:
                mutate_deep(d.getComponent(), depth + 1)
            except error.PyAsn1Error:
                pass
        elif isinstance(d, univ.SequenceAndSetBase):
            for i in range(len(d.componentType) or len(d)):
                mutate_deep(d.getComponentByPosition(i, default=None, instantiate=False), depth + 1)
        else:
            for i in range(len(d)):
                mutate_deep(d.getComponentByPosition(i, default=None, instantiate=False), depth + 1)
        d.clear()
    except Exception:
        pass


def default_read_case(rng, tier):
    """A record with a DEFAULT component of constructed type (non-empty default) that the encoding leaves out."""
    o = C.opts_for(tier, rng, allow_any=False, depth=2, big_strings=False)
    for _ in range(40):
        Td = U.gen_type(rng, o, depth=rng.choice([1, 2, 2]), ctx='field')
        if U.base_of(Td)[0] not in ('seq', 'set', 'seqof', 'setof', 'choice'):
            continue
        dv = U.gen_value(rng, Td, o, small=True)
        if dv in ([], {}, None):
            continue
        kind = rng.choice(['seq', 'set'])
        T = (kind, (('f0', ('int',), 'req', None),
                    ('f1', ('tag', 'E', 'C', 1, Td), 'def', dv),
                    ('f2', ('tag', 'I', 'C', 2, ('octs',)), 'opt', None)))
        if U.is_legal(T):
            return ('c12-default-read', T, {'f0': rng.randint(0, 99), 'f1': dv})
    return None


def arm_default_read(res, case):
    """Reading an absent DEFAULT component of a decoded result hands out a copy of the default: it must share no
    mutable object with the type's own default value or with the copy another result hands out, and emptying it
    must move neither the type nor the sibling result nor what a later decode returns."""
    _, T, v = case
    feats = U.type_features(T, v) | {'arm:default-read'}
    res.see('default-read-cases')
    try:
        e = R.der(T, v)
        schema = B.schema(T)
        fp_s = B.fingerprint(schema)
        want = U.canon(T, v)
        d1, _ = ber_decoder.decode(e, asn1Spec=schema)
        d2, _ = der_decoder.decode(e, asn1Spec=schema)
    except Exception:
        res.see('default-read-skipped')
        return
    try:
        c1, c2 = d1['f1'], d2['f1']
        if not (c1.isValue and c2.isValue):
            res.witness('default-read-gives-no-value', feats, case, '')
            return
    except Exception as ex:
        res.witness('default-read-raised', feats, case, ex)
        return
    ids1, ids2 = constructed_ids(d1), constructed_ids(d2)
    ids_s = schema_ids(schema) | value_graph_ids(schema)
    if ids1 & ids2:
        res.witness('results-share-a-mutable-object', feats, case, '%d shared' % len(ids1 & ids2))
        return
    if (ids1 | ids2) & ids_s:
        res.witness('result-shares-a-mutable-object-with-the-type', feats, case, '%d shared' % len((ids1 | ids2) & ids_s))
        return
    if B.fingerprint(schema) != fp_s:
        res.witness('reading-a-result-changed-the-type', feats, case, '')
        return
    fp2 = B.fingerprint(d2)
    mutate_deep(d1)
    if B.fingerprint(schema) != fp_s:
        res.witness('mutating-a-result-changed-the-type', feats, case, '')
        return
    if B.fingerprint(d2) != fp2:
        res.witness('mutating-a-result-changed-a-sibling-result', feats, case, '')
        return
    try:
        d3, _ = cer_decoder.decode(R.cer(T, v), asn1Spec=schema)
        got = U.canon(T, B.absval(d3, T))
    except Exception as ex:
        res.witness('later-decode-raised-after-mutating-a-result', feats, case, ex)
        return
    if got != want:
        res.witness('later-decode-differs-after-mutating-a-result', feats, case, repr(got)[:200])
        return
    res.see('default-read-ok')


def arm_shared_subschema(res, rng, tier, T):
    """One sub-type object used in several places of a schema (x T, y T OPTIONAL, z SEQUENCE OF T): values that differ
    from place to place must come back as encoded, the shared object must stay as it was, results must not alias it."""
    if U.base_of(T)[0] == 'any' or 'any' in repr(T):
        return
    W = ('seq', (('x', T, 'req', None), ('y', ('tag', 'E', 'P', 1, T), 'opt', None),
                 ('z', ('tag', 'E', 'P', 2, ('seqof', T)), 'req', None)))
    o = C.opts_for(tier, rng)
    try:
        vs = [U.gen_value(rng, T, o, small=True) for _ in range(4)]
        v = {'x': vs[0], 'z': vs[2:]}
        if rng.random() < 0.6:
            v['y'] = vs[1]
        e = R.der(W, v) if rng.random() < 0.5 else R.ber_variant(W, v, rng)[0]
        cache = {}
        schema = B.schema(W, cache=cache)
        shared = cache[T]
    except Exception:
        return
    feats = U.type_features(T) | {'arm:shared-subschema'}
    case = ('c12-shared', T, v)
    fp_shared, fp_s = B.fingerprint(shared), B.fingerprint(schema)
    res.see('shared-subschema-checks')
    outs = []
    for _ in range(2):
        try:
            d, rest = ber_decoder.decode(e, asn1Spec=schema)
            outs.append((bytes(rest), U.canon(W, B.absval(d, W))))
        except B.NotAValue as ex:
            outs.append(('not-a-value', str(ex)[:60]))
        except Exception as ex:
            outs.append(('raised', type(ex).__name__))
    # the same call on a schema without sharing
    try:
        d0, rest0 = ber_decoder.decode(e, asn1Spec=B.schema(W))
        alone = (bytes(rest0), U.canon(W, B.absval(d0, W)))
    except B.NotAValue as ex:
        alone = ('not-a-value', str(ex)[:60])
    except Exception as ex:
        alone = ('raised', type(ex).__name__)
    for i, out in enumerate(outs):
        if out != alone:
            res.witness('outcome-differs-from-isolated-call:decode-with-shared-subschema', feats, case,
                        'call %d: shared %r unshared %r' % (i, repr(out)[:200], repr(alone)[:200]))
            return
    if B.fingerprint(shared) != fp_shared or B.fingerprint(schema) != fp_s:
        res.witness('schema-changed-by:decode-with-shared-subschema', feats, case, '')
        return
    # encoding a value built over the shared schema
    try:
        obj = B.value(W, v, sch=schema)
        got = der_encoder.encode(obj)
        want = der_encoder.encode(B.value(W, v))
    except Exception:
        res.see('shared-subschema:encode-skipped')
        return
    if got != want:
        res.witness('outcome-differs-from-isolated-call:encode-with-shared-subschema', feats, case,
                    'shared %s unshared %s' % (got.hex()[:200], want.hex()[:200]))
        return
    if B.fingerprint(shared) != fp_shared:
        res.witness('schema-changed-by:encode-with-shared-subschema', feats, case, '')
        return
    res.see('shared-subschema-ok')


def arm_interleave(res, rng, bts):
    """k suspended streaming decoders stepped by a random scheduler."""
    decs = []
    for bt in bts:
        try:
            data = R.ber_variant(bt.T, bt.v, rng)[0] + R.der(bt.T, bt.v)
        except Exception:
            continue
        exp = [U.canon(bt.T, bt.v)] * 2
        # non-seekable doubles only below the wrapper's cache-drop threshold: beyond it the pinned
        # KF-C11-wrapper-renumbering finding decides the outcome (C11's matter), not the interleaving
        raw_ok = len(data) <= io.DEFAULT_BUFFER_SIZE
        stream = S.RawSched(data) if raw_ok and rng.random() < 0.5 else S.SeekableSched(data)
        it = iter(ber_decoder.StreamingDecoder(stream, asn1Spec=bt.schema))
        decs.append({'bt': bt, 'stream': stream, 'it': it, 'out': [], 'exp': exp, 'done': False, 'data': data})
    if len(decs) < 2:
        return
    res.see('interleaved-groups')
    feats = {'arm:interleave', 'k:%d' % len(decs)}
    case = ('c12-interleave', tuple((d['bt'].T, d['bt'].v) for d in decs))
    steps = 0
    sig = []
    while not all(d['done'] for d in decs) and steps < 20000:
        steps += 1
        i = rng.randrange(len(decs))
        d = decs[i]
        if d['done']:
            continue
        sig.append(i)
        try:
            x = next(d['it'])
        except StopIteration:
            d['done'] = True
            continue
        except Exception as ex:
            d['out'].append(('raised', type(ex).__name__))
            d['done'] = True
            continue
        if isinstance(x, error.SubstrateUnderrunError):
            g = d['stream'].gate
            if g.limit < g.total:
                g.arrive(rng.randint(1, max(7, g.total // 30)))
            elif not g.closed:
                g.close()
        else:
            try:
                d['out'].append(U.canon(d['bt'].T, B.absval(x, d['bt'].T)))
            except B.NotAValue as ex:
                d['out'].append(('not-a-value', str(ex)[:40]))
    res.see('interleaved-steps', steps)
    res.see_in('interleaving-signatures', U.case_hash(tuple(sig)))
    for d in decs:
        if d['out'] != d['exp']:
            res.witness('interleaved-decoder-output-differs', feats, case, 'got %r want %r' % (d['out'], d['exp']))
            return
    res.see('interleave-ok')


HISTORY_ZONES = {'absent-optional-emptyable-record', 'default-constructed', 'default-choice'}


def build_menu(rng, bt):
    """Calls on the shared objects of bt, each with what it returns when run alone on these very objects:
    [(label, callable, expected)]; None when the basic pair cannot be built."""
    menu = []
    try:
        e_der = R.der(bt.T, bt.v)
        want_enc = der_encoder.encode(bt.obj)
    except Exception:
        return None

    def dec_with(dec, data, bt=bt):
        d, rest = dec.decode(data, asn1Spec=bt.schema)
        return (bytes(rest), U.canon(bt.T, B.absval(d, bt.T)))
    menu.append(('encode', (lambda bt=bt: der_encoder.encode(bt.obj)), want_enc))
    menu.append(('decode', (lambda e=e_der, f=dec_with: f(der_decoder, e)), (b'', bt.cv)))
    # other values of the same type decoded against the SAME schema object (a module-level schema shared by all
    # threads of a program): different alternatives / optional members / element counts in flight at once
    o = C.opts_for('quick', rng)
    for _ in range(3):
        try:
            v2 = U.gen_value(rng, bt.T, o, small=True)
            e2 = R.der(bt.T, v2) if rng.random() < 0.5 else R.ber_variant(bt.T, v2, rng)[0]
            want2 = (b'', U.canon(bt.T, v2))
            fn2 = (lambda e=e2, f=dec_with: f(ber_decoder, e))
            if fn2() == want2:
                menu.append(('decode-sibling', fn2, want2))
        except Exception:
            continue
    if not (HISTORY_ZONES & set(bt.feats)):
        # (values inside the zones of the pinned history-dependent findings keep to the two calls above: there
        # one call legitimately changes what the next returns, which arm_history reports)
        extra = []
        for dm, ck in ((True, 0), (False, 0), (True, rng.choice([1, 2, 3])), (False, rng.choice([2, 4, 5])),
                       (rng.random() < 0.5, rng.choice([7, 1000]))):
            extra.append(('encode-ber', (lambda bt=bt, dm=dm, ck=ck: ber_encoder.encode(bt.obj, defMode=dm, maxChunkSize=ck))))
        extra.append(('encode-cer', (lambda bt=bt: cer_encoder.encode(bt.obj))))
        extra.append(('encode-native', (lambda bt=bt: repr(native_encoder.encode(bt.obj)))))
        try:
            var = R.ber_variant(bt.T, bt.v, rng)[0]
            extra.append(('decode-ber', (lambda e=var, f=dec_with: f(ber_decoder, e))))
            extra.append(('decode-cer', (lambda e=R.cer(bt.T, bt.v), f=dec_with: f(cer_decoder, e))))
        except Exception:
            pass
        for label, fn in extra:
            try:
                menu.append((label, fn, fn()))
            except Exception:
                continue        # a call that fails alone (pinned encoder findings) is not part of this arm
    return menu


PREEMPT_SPENT = [0.0]


def arm_preempt(res, rng, bts, tier):
    """Two concurrent calls under a deterministic scheduler (monitors.Preempt): thread A is stopped at its k-th
    line event inside the library, thread B runs - to completion (depth 1), or to its j-th line event, after which A
    finishes first (depth 2) - and both results are compared with what the calls return alone.  For calls of up to
    `cap` line events every k is taken (the depth-1 schedules of that pair are then enumerated completely)."""
    from .. import monitors as M
    cap = 80 if tier == 'quick' else 600
    # the arm has its own share of the shard's time (thread hand-offs make a schedule cost milliseconds)
    if PREEMPT_SPENT[0] > float(os.environ.get('VERIF_C12_PREEMPT_BUDGET', 14.0 if tier == 'quick' else 240.0)):
        return
    t_start = time.time()
    jobs = [(bt, m) for bt, m in ((bt, build_menu(rng, bt)) for bt in bts) if m]
    if not jobs:
        return
    pre = M.Preempt(os.path.realpath(os.path.join(H.REPO, 'pyasn1')) + os.sep)
    try:
        pre.install()
    except Exception as ex:
        res.see('preempt-unavailable:' + type(ex).__name__)
        return
    try:
        for _ in range(2 if tier == 'quick' else 8):
            bt, menu = rng.choice(jobs)
            if rng.random() < 0.75 or len(jobs) < 2:
                bt2, menu2 = bt, menu          # both calls on the same schema / value objects
            else:
                bt2, menu2 = rng.choice(jobs)   # only the codec singletons are shared
            la, fa, wa = rng.choice(menu)
            same_kind = [m for m in menu2 if m[0].split('-')[0] == la.split('-')[0] and m[1] is not fa]
            lb, fb, wb = rng.choice(same_kind if same_kind and rng.random() < 0.6 else menu2)
            if rng.random() < 0.5:
                # thread A makes the same call twice: whatever the first one left behind (a memo, a cache) is in use
                # when the second one is stopped
                fa, wa, la = (lambda f=fa: (f(), f())), (wa, wa), la + '-twice'
                res.see('preempt-pairs-with-a-repeated-call')
            na, outa = pre.count(fa)
            nb, outb = pre.count(fb)
            if outa != ('ok', wa) or outb != ('ok', wb) or not na or not nb:
                res.see('preempt-pairs-skipped')
                continue
            res.see('preempt-pairs')
            res.see('preempt-pairs:%s+%s' % (la.split('-')[0], lb.split('-')[0]))
            res.maximum('line-events-in-one-call', max(na, nb))
            if na <= cap:
                ks = list(range(1, na + 1))
                res.see('preempt-pairs-with-every-depth-1-schedule')
            else:
                ks = sorted(rng.sample(range(1, na + 1), cap))
            feats = set(bt.feats) | {'arm:preempt'}
            case = ('c12-preempt', bt.T, bt.v, la, lb)
            bad = None
            for k in ks:
                j = None
                if rng.random() < 0.3:
                    j = rng.randint(1, nb)
                ra, rb, info = pre.run(fa, fb, k, j)
                if info == 'timeout':
                    res.inconclusive.append('a preemption schedule did not finish within its watchdog')
                    return
                res.see('preempt-schedules-depth-%d' % (1 if j is None else 2))
                if info == 'not-preempted':
                    res.see('preempt-schedules-that-never-reached-their-point')
                if ra != ('ok', wa) or rb != ('ok', wb):
                    bad = (k, j, ra if ra != ('ok', wa) else rb, 'A' if ra != ('ok', wa) else 'B')
                    break
            if bad is None:
                # nothing may linger: both calls once more, alone
                if outcome2(fa) != ('ok', wa) or outcome2(fb) != ('ok', wb):
                    bad = (None, None, 'a later sequential call differs', '-')
            if bad is not None:
                res.witness('preempted-call-differs:%s+%s' % (la.split('-')[0], lb.split('-')[0]), feats, case,
                            'A=%s B=%s: A stopped at line event %r of %d, B at %r of %d: call %s gave %s' % (
                                la, lb, bad[0], na, bad[1], nb, bad[3], repr(bad[2])[:200]))
                return
        res.see('preempt-ok')
    finally:
        pre.uninstall()
        PREEMPT_SPENT[0] += time.time() - t_start


COLD_CALLS = ('encode-cer', 'encode-der', 'encode-ber', 'encode-native', 'decode-ber', 'decode-der', 'decode-cer')


def cold_fn(label, bt, encs):
    if label == 'encode-cer':
        return lambda: cer_encoder.encode(bt.obj)
    if label == 'encode-der':
        return lambda: der_encoder.encode(bt.obj)
    if label == 'encode-ber':
        return lambda: ber_encoder.encode(bt.obj, defMode=False)
    if label == 'encode-native':
        return lambda: repr(native_encoder.encode(bt.obj))
    dec = DECODERS[label.split('-')[1]]

    def go():
        d, rest = dec.decode(encs[label.split('-')[1]], asn1Spec=bt.schema)
        return (bytes(rest), U.canon(bt.T, B.absval(d, bt.T)))
    return go


def arm_preempt_cold(res, rng, bts, tier):
    """The same scheduler on objects nobody has used before: every schedule gets a freshly built schema and value, so
    that whatever a type or a codec works out lazily on first use (tag maps, lookup tables, sort keys) is being worked
    out by thread A when thread B arrives."""
    from .. import monitors as M
    if PREEMPT_SPENT[0] > float(os.environ.get('VERIF_C12_PREEMPT_BUDGET', 14.0 if tier == 'quick' else 240.0)):
        return
    t_start = time.time()
    cap = 60 if tier == 'quick' else 400
    cands = [bt for bt in bts if U.base_of(bt.T)[0] not in U.SIMPLE and not (HISTORY_ZONES & set(bt.feats))]
    if not cands:
        return
    pre = M.Preempt(os.path.realpath(os.path.join(H.REPO, 'pyasn1')) + os.sep)
    try:
        pre.install()
    except Exception as ex:
        res.see('preempt-unavailable:' + type(ex).__name__)
        return
    try:
        for _ in range(2 if tier == 'quick' else 6):
            bt0 = rng.choice(cands)
            T, v = bt0.T, bt0.v
            if rng.random() < 0.7:
                # a SET (or SEQUENCE) around an untagged CHOICE and tagged members in random tag order: the shape whose
                # lookup tables, tag maps and sort keys the codecs have the most to work out about
                nums = rng.sample(range(0, 12), 6)
                alts = tuple(('a%d' % i, ('tag', 'I', 'C', nums[i], rng.choice([('int',), ('octs',), ('bool',)]))) for i in range(3))
                T = (rng.choice(['set', 'set', 'seq']),
                     (('m0', ('tag', 'I', 'C', nums[3], ('int',)), 'req', None), ('c', ('choice', alts), 'req', None),
                      ('m1', ('tag', 'E', 'C', nums[4], ('octs',)), 'opt', None), ('m2', ('tag', 'I', 'C', nums[5], ('bool',)), 'def', False)))
                if not U.is_legal(T):
                    continue
                v = U.gen_value(rng, T, C.opts_for('quick', rng), small=True)
                bt0 = C.try_build(res, T, v)
                if bt0 is None:
                    continue
                res.see('preempt-cold-pairs-on-a-set-around-a-choice')
            try:
                encs = {'ber': R.ber_variant(T, v, rng)[0], 'der': R.der(T, v), 'cer': R.cer(T, v)}
            except Exception:
                continue
            la = rng.choice(COLD_CALLS)
            # first-use races need both threads inside the same lazy computation: the same call twice, mostly
            lb = la if rng.random() < 0.7 else rng.choice(COLD_CALLS)
            # what the calls return, from a copy used sequentially
            warm = C.try_build(res, T, v)
            if warm is None:
                continue
            wa, wb = outcome2(cold_fn(la, warm, encs)), outcome2(cold_fn(lb, warm, encs))
            if wa[0] != 'ok' or wb[0] != 'ok':
                res.see('preempt-cold-pairs-skipped')
                continue
            fresh = C.try_build(res, T, v)
            na, outa = pre.count(cold_fn(la, fresh, encs))
            if outa != wa or not na:
                res.see('preempt-cold-pairs-skipped')
                continue
            res.see('preempt-cold-pairs')
            res.see('preempt-cold-pairs:%s+%s' % (la, lb))
            ks = list(range(1, na + 1)) if na <= cap else sorted(rng.sample(range(1, na + 1), cap))
            for k in ks:
                fresh = C.try_build(res, T, v)
                ra, rb, info = pre.run(cold_fn(la, fresh, encs), cold_fn(lb, fresh, encs), k, None)
                if info == 'timeout':
                    res.inconclusive.append('a preemption schedule did not finish within its watchdog')
                    return
                res.see('preempt-cold-schedules')
                if ra != wa or rb != wb:
                    res.witness('preempted-first-use-differs:%s+%s' % (la.split('-')[0], lb.split('-')[0]),
                                set(bt0.feats) | {'arm:preempt-cold'}, ('c12-preempt-cold', T, v, la, lb),
                                'A=%s stopped at line event %d of %d on objects never used before, B=%s: %s' % (
                                    la, k, na, lb, repr(ra if ra != wa else rb)[:200]))
                    return
        res.see('preempt-cold-ok')
    finally:
        pre.uninstall()
        PREEMPT_SPENT[0] += time.time() - t_start


def outcome2(fn):
    try:
        return ('ok', fn())
    except Exception as ex:
        return ('raised', type(ex).__name__)


def arm_threads(res, rng, bts, inject=False):
    """8 threads hammer shared schemas / values; every result is compared with the sequential expectation."""
    jobs = []
    for bt in bts:
        menu = build_menu(rng, bt)
        if menu:
            jobs.append((bt, menu))
    if not jobs:
        return
    problems = []
    lock = threading.Lock()
    counters = {'calls': 0}
    old = sys.getswitchinterval()
    sys.setswitchinterval(1e-6)
    mon = None
    switches = {'n': 0, 'last': None}
    if inject:
        try:
            mon = sys.monitoring
            TOOL = 5
            mon.use_tool_id(TOOL, 'verif-yield-injection')
            prefix = os.path.realpath(os.path.join(H.REPO, 'pyasn1')) + os.sep
            local = threading.local()

            def on_line(code, line):
                if not code.co_filename.startswith(prefix):
                    return mon.DISABLE
                r = getattr(local, 'rng', None)
                if r is None:
                    import random
                    r = local.rng = random.Random(threading.get_ident())
                t = threading.get_ident()
                if switches['last'] != t:
                    switches['n'] += 1
                    switches['last'] = t
                if r.random() < 0.02:
                    time.sleep(0)
            mon.register_callback(TOOL, mon.events.LINE, on_line)
            mon.set_events(TOOL, mon.events.LINE)
        except Exception:
            mon = None

    def worker(tid, nloops):
        import random
        r = random.Random(tid)
        for _ in range(nloops):
            bt, menu = r.choice(jobs)
            decs = [m for m in menu if m[0].startswith('decode')]
            what, fn, want = r.choice(decs if decs and r.random() < 0.5 else menu)
            try:
                ok = fn() == want
            except Exception as ex:
                ok = False
                what = 'raised:%s:%s' % (what, type(ex).__name__)
            with lock:
                counters['calls'] += 1
                counters[what.split(':')[0]] = counters.get(what.split(':')[0], 0) + 1
                if not ok:
                    problems.append((what, bt))

    threads = [threading.Thread(target=worker, args=(i, 12 if inject else 60)) for i in range(8)]
    try:
        for t in threads:
            t.start()
        for t in threads:
            t.join(120)
    finally:
        sys.setswitchinterval(old)
        if mon is not None:
            mon.set_events(5, 0)
            mon.register_callback(5, mon.events.LINE, None)
            mon.free_tool_id(5)
    res.see('thread-rounds' + ('-with-yield-injection' if inject else ''))
    res.see('thread-calls', counters['calls'])
    for k, n in counters.items():
        if k != 'calls':
            res.see('thread-calls:' + k, n)
    if inject:
        res.see('thread-switches-observed-inside-repo-code', switches['n'])
    if any(t.is_alive() for t in threads):
        res.inconclusive.append('thread round did not finish within its watchdog')
        return
    for what, bt in problems[:3]:
        res.witness('threaded-call-differs:' + what.split(':')[0], set(bt.feats) | {'arm:threads'},
                    ('c12-threads', bt.T, bt.v), what)
    if not problems:
        res.see('thread-rounds-ok')


class Sink(object):
    def __init__(self):
        self.n = 0

    def __call__(self, msg):
        self.n += 1


def arm_logging(res, rng, bt):
    T, v = bt.T, bt.v
    feats = set(bt.feats) | {'arm:logging'}
    try:
        ref_encs = {'ber': R.ber_variant(T, v, rng)[0], 'cer': R.cer(T, v), 'der': R.der(T, v)}
    except Exception:
        return
    calls = make_calls(rng, T, v, ref_encs)[:10]
    quiet = [run_call(c, T, B.schema(T), B.value(T, v)) for c in calls]
    sink = Sink()
    try:
        debug.setLogger(debug.Debug('all', printer=sink))
        loud = [run_call(c, T, B.schema(T), B.value(T, v)) for c in calls]
    finally:
        debug.setLogger(None)
    after = [run_call(c, T, B.schema(T), B.value(T, v)) for c in calls]
    res.see('logging-comparisons', len(calls))
    res.see('log-messages-seen', sink.n)
    for i, c in enumerate(calls):
        case = ('c12-logging', T, v, (c[0], c[1], c[2].hex() if isinstance(c[2], bytes) else c[2]))
        if loud[i] != quiet[i]:
            res.witness('outcome-differs-with-logging-on:' + c[0], feats | {'call:' + c[0]}, case,
                        'quiet %r loud %r' % (repr(quiet[i])[:200], repr(loud[i])[:200]))
            return
        if after[i] != quiet[i]:
            res.witness('outcome-differs-after-logging-was-switched-off:' + c[0], feats, case, '')
            return
    res.see('logging-ok')



# ------------------------------------------------------------------ open types: one schema object, many governing values

def opentype_case(rng, tier):
    """-> case ('c12-open', container, govkind, shape, anytag, tmap, values(reprs), codec name) or None"""
    from . import c18
    container = rng.choice(['seq', 'set'])
    govkind = rng.choice(['int', 'oid'])
    shape = rng.choice(['single', 'single', 'seqof', 'setof'])
    anytag = rng.choice(['untagged', 'implicit', 'explicit'])
    if container == 'set' and anytag == 'untagged':
        anytag = 'explicit'
    cname = rng.choice(sorted(c18.CODECS))
    codec, defMode = c18.CODECS[cname][3], c18.CODECS[cname][4]
    o = C.opts_for(tier, rng, allow_any=False, depth=2, big_strings=False)
    tmap, vals = [], []
    for i in range(rng.randint(2, 4)):
        for _try in range(30):
            T = U.gen_type(rng, o, depth=rng.choice([0, 0, 1, 2]))
            v = U.gen_value(rng, T, o, small=True)
            if c18.inner_ok(T, v, codec, defMode):
                tmap.append((c18.gov_value(govkind, i), T))
                vals.append(v)
                break
    if len(tmap) < 2:
        return None
    return ('c12-open', container, govkind, shape, anytag, tuple(tmap), tuple(vals), cname)


def arm_opentypes(res, case):
    """Every governing value of one map is decoded (a) on a fresh schema, quietly, (b) on ONE shared schema object in
    sequence, (c) with debug logging on, (d) after logging was switched off again, with and without resolution."""
    from . import c18
    _, container, govkind, shape, anytag, tmap, vals, cname = case
    enc, ekw, dec, codec, defMode = c18.CODECS[cname]
    feats = {'arm:opentypes', 'codec:' + cname, 'anytag:' + anytag, 'shape:' + shape, 'container:' + container}

    def fresh():
        return c18.make_schema(container, govkind, shape, anytag, tmap)

    encs = []
    for (g, Tin), v in zip(tmap, vals):
        try:
            val = fresh().clone()
            val['gov'] = g
            if shape == 'single':
                val['blob'] = B.value(Tin, v)
            else:
                val['blob'].clear()
                val['blob'].append(B.value(Tin, v))
                val['blob'].append(B.value(Tin, v))
            encs.append(enc(val, **ekw))
        except Exception:
            res.see('opentypes:skipped-build-or-encode-raised')
            return

    def call(schema, e, resolve):
        def go():
            d, rest = dec(e, asn1Spec=schema, **(dict(decodeOpenTypes=True) if resolve else {}))
            return (d.prettyPrint(), rest)
        return outcome_of(go)

    plan_ = [(i, r) for r in (True, False) for i in range(len(encs))]
    quiet = [call(fresh(), encs[i], r) for i, r in plan_]
    shared = fresh()
    hist = [call(shared, encs[i], r) for i, r in plan_]
    sink = Sink()
    try:
        debug.setLogger(debug.Debug('all', printer=sink))
        loud = [call(fresh(), encs[i], r) for i, r in plan_]
    finally:
        debug.setLogger(None)
    after = [call(fresh(), encs[i], r) for i, r in plan_]
    res.see('opentype-comparisons', 3 * len(plan_))
    res.see('log-messages-seen', sink.n)
    for k, (i, r) in enumerate(plan_):
        f = feats | {'resolution:' + ('on' if r else 'off')}
        if hist[k] != quiet[k]:
            res.witness('outcome-differs-from-isolated-call:opentype-decode', f, case,
                        'governing value #%d: fresh %r shared %r' % (i, repr(quiet[k])[:200], repr(hist[k])[:200]))
            return
        if loud[k] != quiet[k]:
            res.witness('outcome-differs-with-logging-on:opentype-decode', f, case,
                        'governing value #%d of %d: quiet %r loud %r' % (i, len(encs), repr(quiet[k])[:200], repr(loud[k])[:200]))
            return
        if after[k] != quiet[k]:
            res.witness('outcome-differs-after-logging-was-switched-off:opentype-decode', f, case, '')
            return
    if any(isinstance(q, tuple) and q and q[0] == 'raised' for q in quiet):
        res.see('opentypes:some-quiet-calls-raised')
    # (e) a caller-supplied openTypes= map is an argument like any other: ONE dict object handed to a sequence of calls
    # against two schemas whose own maps disagree; every call must return what it returns with a fresh copy of the
    # dict, and the dict must come back as it went in
    import random
    r2 = random.Random(U.case_hash(case))
    rot = [(gg, tmap[(i + 1) % len(tmap)][1]) for i, (gg, t) in enumerate(tmap)]

    def mk(which):
        return c18.make_schema(container, govkind, shape, anytag, tmap if which == 'A' else rot)

    def key(g):
        return univ.ObjectIdentifier(g) if govkind == 'oid' else g
    k0 = r2.randrange(len(tmap))
    caller0 = {key(tmap[k0][0]): B.schema(tmap[k0][1])}
    cm = dict(caller0)

    def call2(schema, e, m):
        def go():
            d, rest = dec(e, asn1Spec=schema, openTypes=m)
            return (d.prettyPrint(), rest)
        return outcome_of(go)
    seq = [(w, i) for w in 'AB' for i in range(len(encs))]
    r2.shuffle(seq)
    for w, i in seq:
        got = call2(mk(w), encs[i], cm)
        alone = call2(mk(w), encs[i], dict(caller0))
        res.see('opentype-caller-map-comparisons')
        if got != alone:
            res.witness('outcome-differs-from-isolated-call:opentype-decode-with-callers-map', feats, case,
                        'schema %s governing value #%d: shared map %r fresh map %r' % (w, i, repr(got)[:200], repr(alone)[:200]))
            return
        if set(cm) != set(caller0) or any(cm[k_] is not caller0[k_] for k_ in caller0):
            res.witness('decode-changed-the-callers-openTypes-map', feats, case,
                        'keys %r -> %r' % (sorted(map(str, caller0)), sorted(map(str, cm))))
            return
    res.see('opentypes-ok')


def run_shard(shard, tier, seed):
    res = H.Result(ID)
    rng = C.rng_for(seed, ID, shard['shard'])
    budget = C.Budget(tier, quick=40.0)
    PREEMPT_SPENT[0] = 0.0
    contracts = Contracts()
    contracts.install()
    res.see_in('contract-implementation', contracts.kind)
    pool = []
    try:
        # the thread clause first, with a workload that does not depend on how much time is left: four thread rounds
        # and two preemption rounds over ten generated cases (CHOICE / SET / string types among them: what the shared
        # lookup tables and the chunking encoders are used by)
        try:
            block = []
            for j in range(40):
                bt0 = C.try_build(res, *C.gen_case(rng, tier, depth=2, allow_any=False))
                if bt0 is not None and (U.base_of(bt0.T)[0] not in U.SIMPLE or j % 4 == 0):
                    block.append(bt0)
                if len(block) >= 10:
                    break
            if block:
                for k in range(4):
                    arm_threads(res, rng, block[(k % 2) * 5:(k % 2) * 5 + 5] or block)
                saved = PREEMPT_SPENT[0]
                arm_preempt(res, rng, block[:5], tier)
                arm_preempt(res, rng, block[5:] or block, tier)
                arm_preempt_cold(res, rng, block, tier)
                PREEMPT_SPENT[0] = saved
        except Exception:
            res.see('harness:error')
            if len(res.inconclusive) < 3:
                res.inconclusive.append('harness error: ' + H.fmt_exc())
        for i in range(shard['n']):
            if budget.expired(res):
                break
            T, v = C.gen_case(rng, tier, allow_any=rng.random() < 0.5)
            try:
                bt = C.try_build(res, T, v)
                if bt is None:
                    continue
                res.case(U.case_hash(T, bt.cv), U.base_of(T)[0] not in U.SIMPLE)
                arm_history(res, rng, bt, contracts)
                bt2 = C.try_build(res, T, v)
                arm_aliasing(res, rng, bt2)
                if i % 3 == 0:
                    arm_logging(res, rng, bt2)
                if i % 3 == 1:
                    arm_shared_subschema(res, rng, tier, T)
                if i % 4 == 1:
                    oc = opentype_case(rng, tier)
                    if oc is not None:
                        arm_opentypes(res, oc)
                if i % 2 == 0:
                    dc = default_read_case(rng, tier)
                    if dc is not None:
                        arm_default_read(res, dc)
                pool.append(C.try_build(res, T, v))
                if len(pool) >= 5:
                    group = pool[:rng.randint(2, 5)]
                    if rng.random() < 0.5:
                        # the same type with different values: every decoder is inside the same payload codecs
                        o = C.opts_for(tier, rng)
                        same = [group[0]]
                        for _ in range(len(group) - 1):
                            try:
                                b2 = C.try_build(res, group[0].T, U.gen_value(rng, group[0].T, o, small=True))
                            except Exception:
                                b2 = None
                            if b2 is not None:
                                same.append(b2)
                        if len(same) >= 2:
                            group = same
                            res.see('interleaved-groups-of-one-type')
                    arm_interleave(res, rng, group)
                    if i % 20 < 5:
                        arm_threads(res, rng, pool)
                    if i % 10 == 9:
                        arm_preempt(res, rng, pool, tier)
                    if i % 10 == 4:
                        arm_preempt_cold(res, rng, pool, tier)
                    pool = []
                if len(res.samples) < 3:
                    res.sample(C.sample_of(T, v, arms=['history', 'aliasing', 'logging', 'interleave', 'threads']))
            except Exception:
                res.see('harness:error')
                if len(res.inconclusive) < 3:
                    res.inconclusive.append('harness error: ' + H.fmt_exc())
        # one yield-injection thread round per shard
        try:
            extra = [b for b in (C.try_build(res, *C.gen_case(rng, tier, depth=2)) for _ in range(4)) if b is not None]
            arm_threads(res, rng, extra, inject=True)
        except Exception:
            res.see('harness:error')
    finally:
        contracts.uninstall()
    return res


def replay(case):
    if case[0] == 'enc':
        return C.replay_enc(ID, case)
    res = H.Result(ID)
    import random
    contracts = Contracts()
    contracts.install()
    try:
        if case[0] == 'c12-shared':
            for sd in range(20):
                arm_shared_subschema(res, random.Random(sd), 'quick', case[1])
                if res.witnesses:
                    break
        elif case[0] == 'c12-open':
            arm_opentypes(res, case)
        elif case[0] == 'c12-default-read':
            arm_default_read(res, case)
        elif case[0] in ('c12-history', 'c12-alias', 'c12-logging'):
            T, v = case[1], case[2]
            for s in range(30):
                rng = random.Random(s)
                bt = C.try_build(res, T, v)
                if bt is None:
                    break
                if case[0] == 'c12-history':
                    arm_history(res, rng, bt, contracts)
                elif case[0] == 'c12-alias':
                    arm_aliasing(res, rng, bt)
                else:
                    arm_logging(res, rng, bt)
                if res.witnesses:
                    break
    finally:
        contracts.uninstall()
    return res


def conclusive(m, tier):
    out = []
    if not m['obs'].get('contract-evaluations', 0):
        out.append('contracts on the codec entry points were never evaluated')
    if not m['obs'].get('thread-calls', 0):
        out.append('no threaded call was observed')
    return out
