"""C19 Container objects refine their Python prototypes under any operation history (DESIGN 4/C19)."""
import random

from pyasn1.codec.ber import encoder as ber_encoder
from pyasn1.codec.cer import encoder as cer_encoder
from pyasn1.codec.der import encoder as der_encoder
from pyasn1.codec.native import encoder as native_encoder
from pyasn1.type import char, namedtype, tag, univ, useful
from pyasn1.type import base as asn1base
from pyasn1 import error

from .. import universe as U
from .. import refx690 as R
from .. import build as B
from .. import harness as H
from . import common as C

ID = 'C19'
LEVEL = 'exploration'
TECHNIQUE = ('runtime monitoring against an executable reference model: random operation histories are applied to a real '
             'container object and to a plain list / dict / pair model; after every step all observables (isValue, len, '
             'iteration, membership, abstract content, DER bytes vs the independent writer) are compared')
RULE = ('a case = one history of up to 40 operations on a SEQUENCE OF / SET OF (with or without component type), a '
        'SEQUENCE / SET whose OPTIONAL members are themselves SEQUENCE OF / SEQUENCE / SET OF (replaced whole, mutated in place, deep-cloned), a '
        'SEQUENCE / SET with declared components, a field-less SEQUENCE or a CHOICE: mutators (__setitem__ by '
        'index/name/slice, append, extend, setComponentBy{Position,Name,Type}, sort, reverse, clear, reset, clone) freely '
        'interleaved with readers (len, iter, in, __getitem__, getComponentBy*(instantiate=False/True within range), '
        'keys/values/items, count, index, prettyPrint, ==, encode) and ill-formed calls; plus every operator / '
        'conversion on valueless scalars; non-trivial = history contains a risky pair (clear->append, reset->read, '
        'clone-after-mutation, sort/reverse, slice assignment); distinct = sha1 of the history')
ASSUMPTIONS = ['only positions inside the documented range are treated as well-formed (set at 0..len, get at 0..len-1)',
               'records: len() is compared only for CHOICE, list-like types and field-less records',
               'reading a non-selected CHOICE alternative with instantiate=True is not exercised (documented '
               'auto-instantiation idiom)']
KEY_FEATURES = ('kind', 'op')

INT = ('int',)
LISTT = {'seqof': ('seqof', INT), 'setof': ('setof', INT)}
REC_FIELDS = (('a', ('int',), 'req', None), ('b', ('octs',), 'opt', None), ('c', ('bool',), 'def', False),
              ('d', ('tag', 'I', 'C', 0, ('int',)), 'opt', None))
RECT = {'seq': ('seq', REC_FIELDS), 'set': ('set', REC_FIELDS)}
CHOICET = ('choice', (('x', ('int',)), ('y', ('octs',)), ('z', ('tag', 'I', 'C', 1, ('bool',)))))


def plan(tier, seed):
    return C.plan_counts(tier, 16 * 8000, 16 * 150000)


class Mismatch(Exception):
    def __init__(self, symptom, detail):
        Exception.__init__(self, symptom)
        self.symptom = symptom
        self.detail = detail


REJECT = (LookupError, error.PyAsn1Error)


CURRENT = [None]      # the case object whose step is running (set by run_history)


def observable(obj):
    """What a caller can see of obj without reading members: used to decide "an ill-formed operation changes nothing"
    model-free (len() of a record with declared components is not part of the dict model, but it may not move either)."""
    out = []
    for name, fn in (('len', lambda: len(obj)), ('isValue', lambda: obj.isValue), ('bool', lambda: bool(obj)),
                     ('pretty', lambda: obj.prettyPrint()), ('eq-int', lambda: obj == 12345)):
        try:
            out.append((name, fn()))
        except Exception as ex:
            out.append((name, 'raises ' + type(ex).__name__))
    return out


def expect_reject(fn, proto_exc=()):
    """An operation the model rejects must raise LookupError / PyAsn1Error / the prototype's exception class, and
    leave the object exactly as it was."""
    cur = CURRENT[0]
    before = observable(cur.obj) if cur is not None else None
    try:
        r = fn()
    except REJECT:
        r = REJECT
    except proto_exc:
        r = REJECT
    except Exception as ex:
        raise Mismatch('ill-formed-op-raised-foreign-exception:' + type(ex).__name__, str(ex))
    if r is not REJECT:
        raise Mismatch('ill-formed-op-accepted', repr(r)[:100])
    if before is not None:
        after = observable(cur.obj)
        if after != before:
            diff = [(a[0], a[1], b[1]) for a, b in zip(before, after) if a != b]
            raise Mismatch('ill-formed-op-changed-the-object', repr(diff)[:300])


# ------------------------------------------------------------------ list-like containers

def after_clear(obj, what):
    """Right after clear() / reset() a container holds nothing, whatever it declares: length 0, falsy, and comparing it
    with anything is an ordinary comparison (dict.clear(), list.clear())."""
    try:
        n = len(obj)
        truth = bool(obj)
        obj == 5
        obj != 5
        obj == obj
    except error.PyAsn1Error:
        return
    except Exception as ex:
        raise Mismatch('after-%s:observation-raised:%s' % (what, type(ex).__name__), str(ex)[:200])
    if n != 0:
        raise Mismatch('after-%s:length-not-zero' % what, 'len %d' % n)
    if truth:
        raise Mismatch('after-%s:truthy' % what, '')


def nested_clone_probe(kind, L):
    """A SEQUENCE OF / SET OF whose members are records holding the model's integers: a deep clone shares nothing
    with the original, at any depth, in either direction."""
    rec = univ.Sequence(componentType=namedtype.NamedTypes(
        namedtype.NamedType('x', univ.Integer()),
        namedtype.OptionalNamedType('l', univ.SequenceOf(componentType=univ.Integer()))))
    cls = univ.SequenceOf if kind == 'seqof' else univ.SetOf
    o = cls(componentType=rec)
    o.clear()
    for v in L:
        m = rec.clone()
        m['x'] = v
        m['l'].append(v + 1)
        o.append(m)

    def snap(obj):
        return [(int(m['x']), [int(y) for y in m['l']]) for m in obj]
    want = [(v, [v + 1]) for v in L]
    c = o.clone(cloneValueFlag=True)
    if snap(c) != want or snap(o) != want:
        raise Mismatch('deep-clone-of-nested-list-differs', '%r vs %r' % (snap(c), want))
    for a, b in ((c, o), (o, c)):
        for m in a:
            m['x'] = 77
            m['l'].append(5)
            m['l'][0] = 9
        if snap(b) != want:
            raise Mismatch('deep-clone-shares-members-with-the-original', '%r vs %r' % (snap(b), want))
        for i, v in enumerate(L):       # put the mutated side back
            a[i]['x'] = v
            a[i]['l'].clear()
            a[i]['l'].append(v + 1)
    if L:
        ids_o = set(id(m) for m in o) | set(id(m['l']) for m in o)
        ids_c = set(id(m) for m in c) | set(id(m['l']) for m in c)
        if ids_o & ids_c:
            raise Mismatch('deep-clone-shares-members-with-the-original', 'object identity')


class ListCase(object):
    def __init__(self, kind, typed):
        self.kind, self.typed = kind, typed
        cls = univ.SequenceOf if kind == 'seqof' else univ.SetOf
        self.obj = cls(componentType=univ.Integer()) if typed else cls()
        self.L = None
        self.T = LISTT[kind]

    def elem(self, x):
        return x if self.typed else univ.Integer(x)

    def observe(self, where):
        obj, L = self.obj, self.L
        try:
            if obj.isValue != (L is not None):
                raise Mismatch('isValue-differs', '%s: obj %s model %s' % (where, obj.isValue, L))
            if len(obj) != len(L or []):
                raise Mismatch('len-differs', '%s: obj %d model %r' % (where, len(obj), L))
            got = [int(x) for x in obj]
            if got != (L or []):
                raise Mismatch('iteration-differs', '%s: obj %r model %r' % (where, got, L))
            for probe in (0, 3, 7):
                if (probe in obj) != (probe in (L or [])):
                    raise Mismatch('membership-differs', '%s: probe %d model %r' % (where, probe, L))
            if L is not None:
                a = B.absval(obj, self.T)
                if a != L:
                    raise Mismatch('abstract-content-differs', '%s: %r vs %r' % (where, a, L))
                e = der_encoder.encode(obj)
                want = R.der(self.T, L)
                if e != want:
                    raise Mismatch('der-differs', '%s: %s vs %s for %r' % (where, e.hex(), want.hex(), L))
        except Mismatch:
            raise
        except Exception as ex:
            raise Mismatch('observation-raised:' + type(ex).__name__, '%s: %s (model %r)' % (where, ex, L))

    def step(self, rng):
        """Pick and apply one operation to object and model; returns the op descriptor."""
        L = self.L
        n = len(L or [])
        ops = ['append', 'append', 'extend', 'setitem', 'setpos', 'clear', 'reset', 'sort', 'reverse', 'slice-set',
               'clone', 'read', 'read', 'read', 'bad-get', 'bad-index', 'bad-value', 'neg-set', 'fill-out-of-order']
        op = rng.choice(ops)
        x = rng.randint(0, 9)
        if op == 'fill-out-of-order':
            # k new members stored at positions n .. n+k-1 in a non-ascending order (pinned by the repository's tests:
            # a store beyond the end pads with placeholders).  One step of the history: the sparse states in between
            # are not observed, the dense result is what list.extend gives
            xs = [rng.randint(0, 9) for _ in range(rng.choice([2, 3, 4]))]
            order = list(range(len(xs)))
            if rng.random() < 0.5:
                order.reverse()
            else:
                while order == sorted(order):
                    rng.shuffle(order)
            by_item = rng.random() < 0.5
            for j in order:
                if by_item:
                    self.obj[n + j] = self.elem(xs[j])
                else:
                    self.obj.setComponentByPosition(n + j, self.elem(xs[j]))
            self.L = (L or []) + xs
            return ('fill-out-of-order', tuple(order), tuple(xs))
        if op == 'append':
            self.obj.append(self.elem(x))
            self.L = (L or []) + [x]
            return ('append', x)
        if op == 'extend':
            xs = [rng.randint(0, 9) for _ in range(rng.choice([0, 0, 1, 2, 3]))]
            self.obj.extend([self.elem(v) for v in xs])
            self.L = (L or []) + xs
            return ('extend', tuple(xs))
        if op in ('setitem', 'setpos'):
            i = rng.randint(0, n)
            if op == 'setitem':
                self.obj[i] = self.elem(x)
            else:
                self.obj.setComponentByPosition(i, self.elem(x))
            L = list(L or [])
            if i == n:
                L.append(x)
            else:
                L[i] = x
            self.L = L
            return (op, i, x)
        if op == 'neg-set':
            if not n:
                return ('noop',)
            i = -rng.randint(1, n)
            self.obj[i] = self.elem(x)
            L = list(L)
            L[i] = x
            self.L = L
            return ('neg-set', i, x)
        if op == 'clear':
            self.obj.clear()
            after_clear(self.obj, 'clear')
            self.L = []
            return ('clear',)
        if op == 'reset':
            self.obj.reset()
            after_clear(self.obj, 'reset')
            self.L = None
            return ('reset',)
        if op in ('sort', 'reverse'):
            rev = rng.random() < 0.5
            if L is None:
                expect_reject(lambda: self.obj.sort() if op == 'sort' else self.obj.reverse(),
                              (TypeError, AttributeError, ValueError))
                return (op + '-on-schema',)
            if op == 'sort':
                # a key that ties distinct members half of the time: list.sort is stable with respect to position
                coarse = rng.random() < 0.5
                if coarse:
                    self.obj.sort(key=lambda c: int(c) // 3, reverse=rev)
                    self.L = sorted(L, key=lambda v: v // 3, reverse=rev)
                else:
                    self.obj.sort(key=int, reverse=rev)
                    self.L = sorted(L, reverse=rev)
                return ('sort', rev, 'coarse-key' if coarse else 'int-key')
            self.obj.reverse()
            self.L = L[::-1]
            return ('reverse',)
        if op == 'slice-set':
            if L is None or not n:
                return ('noop',)
            a = rng.randint(0, n - 1)
            b = rng.randint(a, n)
            same = rng.random() < 0.6
            xs = [rng.randint(0, 9) for _ in range((b - a) if same else rng.choice([0, 1, 2, 3]))]
            self.obj[a:b] = [self.elem(v) for v in xs]
            L = list(L)
            L[a:b] = xs
            self.L = L
            return ('slice-set:' + ('equal' if len(xs) == b - a else 'unequal'), a, b, tuple(xs))
        if op == 'clone':
            deep = rng.random() < 0.7
            c = self.obj.clone(cloneValueFlag=deep)
            if not deep:
                if c.isValue or len(c):
                    raise Mismatch('clone-without-values-is-not-a-schema', repr(c)[:100])
                return ('clone-schema',)
            # the copy must be independent: mutate it, the original must not move
            if L is not None and rng.random() < 0.3:
                nested_clone_probe(self.kind, L)
                return ('clone-deep-of-nested-list',)
            if L is not None and rng.random() < 0.5:
                c.append(self.elem(1))
                if n:
                    c[0] = self.elem(9)
                self.observe('after mutating a deep clone (original)')
                return ('clone-deep-mutated',)
            self.obj = c
            return ('clone-deep-continue',)
        if op == 'read':
            which = rng.choice(['get', 'getneg', 'slice', 'count', 'index', 'gcp-false', 'gcp-true', 'pretty', 'eq',
                                'repr', 'str'])
            if which in ('get', 'getneg', 'gcp-false', 'gcp-true', 'index') and not n:
                return ('noop',)
            if which == 'get':
                i = rng.randrange(n)
                if int(self.obj[i]) != L[i]:
                    raise Mismatch('getitem-differs', '%d: %r' % (i, L))
            elif which == 'getneg':
                i = -rng.randint(1, n)
                if int(self.obj[i]) != L[i]:
                    raise Mismatch('getitem-negative-differs', '%d: %r' % (i, L))
            elif which == 'slice':
                if L is None:
                    return ('noop',)
                a = rng.randint(0, n)
                b = rng.randint(a, n)
                if [int(v) for v in self.obj[a:b]] != L[a:b]:
                    raise Mismatch('slice-read-differs', '%d:%d %r' % (a, b, L))
            elif which == 'count':
                if L is None:
                    return ('noop',)
                if self.obj.count(x) != L.count(x):
                    raise Mismatch('count-differs', '%d in %r' % (x, L))
            elif which == 'index':
                v = rng.choice(L)
                if self.obj.index(v) != L.index(v):
                    raise Mismatch('index-differs', '%d in %r' % (v, L))
            elif which == 'gcp-false':
                i = rng.randrange(n)
                if int(self.obj.getComponentByPosition(i, instantiate=False)) != L[i]:
                    raise Mismatch('getComponentByPosition-differs', '%d: %r' % (i, L))
            elif which == 'gcp-true':
                i = rng.randrange(n)
                if int(self.obj.getComponentByPosition(i, instantiate=True)) != L[i]:
                    raise Mismatch('getComponentByPosition-differs', '%d: %r' % (i, L))
            elif which == 'pretty':
                self.obj.prettyPrint()
            elif which == 'eq':
                if L is not None and not (self.obj == [self.elem(v) for v in L]):
                    raise Mismatch('eq-with-equal-list-is-false', repr(L))
            elif which == 'repr':
                repr(self.obj)
            elif which == 'str':
                str(self.obj)
            return ('read:' + which,)
        if op == 'bad-get':
            # beyond the end only without instantiation (a read at N+1 is documented to append a placeholder,
            # sparse positions beyond that are pinned by the repository's tests): nothing may appear
            if rng.random() < 0.5:
                i = n + rng.randint(0, 3)
                c = self.obj.getComponentByPosition(i, default=None, instantiate=False)
                if c is not None:
                    raise Mismatch('component-beyond-the-end', '%d: %r' % (i, c))
                return ('get-beyond-end-no-instantiate', i)
            i = -(n + rng.randint(1, 3))
            expect_reject(lambda: self.obj[i], (IndexError,))
            return ('bad-get', i)
        if op == 'bad-index':
            if L is None:
                return ('noop',)
            expect_reject(lambda: self.obj.index(77), (ValueError,))
            return ('bad-index',)
        if op == 'bad-value':
            # a value the declared component type cannot hold, or a non-iterable argument, through every mutator:
            # the call is refused and nothing changes (schema stays schema, a value keeps its members)
            how = rng.choice(['append', 'extend-first', 'extend-later', 'extend-non-iterable', 'setitem', 'setpos', 'slice'])
            if how == 'extend-non-iterable':
                expect_reject(lambda: self.obj.extend(5), (ValueError, TypeError))
                return ('bad-value', how)
            if not self.typed:
                return ('noop',)
            bad = rng.choice(['not-a-number', univ.OctetString('wrong type'), None.__class__])
            if how == 'append':
                expect_reject(lambda: self.obj.append(bad), (ValueError, TypeError))
            elif how == 'extend-first':
                expect_reject(lambda: self.obj.extend([bad, 1]), (ValueError, TypeError))
            elif how == 'extend-later':
                # list.extend is not atomic either: members accepted before the refusal stay
                try:
                    self.obj.extend([1, bad])
                except REJECT + (ValueError, TypeError):
                    self.L = list(L or []) + [1]
                else:
                    raise Mismatch('ill-formed-op-accepted', 'extend([1, %r])' % (bad,))
            elif how == 'setitem':
                expect_reject(lambda: self.obj.__setitem__(n, bad), (ValueError, TypeError))
            elif how == 'setpos':
                expect_reject(lambda: self.obj.setComponentByPosition(rng.randint(0, n), bad), (ValueError, TypeError))
            else:
                if L is None:
                    return ('noop',)
                expect_reject(lambda: self.obj.__setitem__(slice(0, 1), [bad]), (ValueError, TypeError))
            return ('bad-value', how)
        return ('noop',)


# ------------------------------------------------------------------ records with declared components

def rec_schema(kind):
    nts = [namedtype.NamedType('a', univ.Integer()),
           namedtype.OptionalNamedType('b', univ.OctetString()),
           namedtype.DefaultedNamedType('c', univ.Boolean(False)),
           namedtype.OptionalNamedType('d', univ.Integer().subtype(
               implicitTag=tag.Tag(tag.tagClassContext, tag.tagFormatSimple, 0)))]
    return (univ.Sequence if kind == 'seq' else univ.Set)(componentType=namedtype.NamedTypes(*nts))


NAMES = ['a', 'b', 'c', 'd']


class RecCase(object):
    def __init__(self, kind):
        self.kind = kind
        self.obj = rec_schema(kind)
        self.D = {}          # fresh declared record: nothing set (not a value while 'a' is missing)
        self.was_reset = False
        self.T = RECT[kind]

    def model_value(self):
        D = dict(self.D)
        D.setdefault('c', False)
        return D

    def pyval(self, name, v):
        return v

    def gen(self, rng, name):
        if name == 'a':
            return rng.randint(-3, 300)
        if name == 'b':
            return bytes(rng.getrandbits(8) for _ in range(rng.randint(0, 3)))
        if name == 'c':
            return rng.random() < 0.5
        return rng.randint(0, 5)

    def observe(self, where):
        obj, D = self.obj, self.D
        try:
            want_value = D is not None and 'a' in D
            if obj.isValue != want_value:
                raise Mismatch('isValue-differs', '%s: obj %s model %r' % (where, obj.isValue, D))
            if D is not None:
                if list(obj) != NAMES or list(obj.keys()) != NAMES:
                    raise Mismatch('iteration-differs', '%s: %r' % (where, list(obj)))
                for nm in NAMES + ['nope']:
                    if (nm in obj) != (nm in NAMES):
                        raise Mismatch('membership-differs', '%s: %s' % (where, nm))
                for nm in NAMES:
                    c = obj.getComponentByName(nm, default=None, instantiate=False)
                    if nm in D:
                        if c is None:
                            raise Mismatch('component-lost', '%s: %s model %r' % (where, nm, D))
                        got = c.asOctets() if nm == 'b' else (bool(int(c)) if nm == 'c' else int(c))
                        if got != D[nm]:
                            raise Mismatch('abstract-content-differs', '%s: %s = %r model %r' % (where, nm, got, D))
                    elif c is not None and nm != 'c':
                        raise Mismatch('component-appeared', '%s: %s model %r' % (where, nm, D))
                    elif c is not None and nm == 'c' and bool(int(c)) is not False:
                        raise Mismatch('default-differs', '%s: %r' % (where, c))
            if want_value:
                e = der_encoder.encode(obj)
                want = R.der(self.T, self.model_value())
                if e != want:
                    raise Mismatch('der-differs', '%s: %s vs %s for %r' % (where, e.hex(), want.hex(), D))
        except Mismatch:
            raise
        except Exception as ex:
            raise Mismatch('observation-raised:' + type(ex).__name__, '%s: %s (model %r)' % (where, ex, D))

    def step(self, rng):
        D = self.D
        if D is not None and rng.random() < 0.08:
            # unsetting a member (storing noValue): an OPTIONAL member becomes absent, a DEFAULT member goes back to
            # its default
            present = [n_ for n_ in ('b', 'c', 'd') if n_ in D]
            if present:
                nm = rng.choice(present)
                how = rng.choice(['setitem', 'set-name', 'set-pos', 'set-pos-noarg'])
                if how == 'setitem':
                    self.obj[nm] = univ.noValue
                elif how == 'set-name':
                    self.obj.setComponentByName(nm, univ.noValue)
                elif how == 'set-pos':
                    self.obj.setComponentByPosition(NAMES.index(nm), univ.noValue)
                else:
                    self.obj.setComponentByPosition(NAMES.index(nm))
                self.D = dict(D)
                del self.D[nm]
                return ('unset', nm, how)
        op = rng.choice(['set-name', 'set-name', 'set-pos', 'set-item', 'set-type', 'clear', 'reset', 'clone', 'read',
                         'read', 'read', 'bad-name', 'bad-pos', 'bad-value', 'update'])
        nm = rng.choice(NAMES)
        idx = NAMES.index(nm)
        if op in ('set-name', 'set-pos', 'set-item', 'set-type', 'update'):
            v = self.gen(rng, nm)
            if op == 'set-name':
                self.obj.setComponentByName(nm, v)
            elif op == 'set-pos':
                self.obj.setComponentByPosition(idx, v)
            elif op == 'set-item':
                if rng.random() < 0.5:
                    self.obj[nm] = v
                else:
                    self.obj[idx] = v
            elif op == 'update':
                self.obj.update(**{nm: v})
            else:
                if self.kind != 'set':
                    return ('noop',)
                ts = self.obj.componentType[nm].asn1Object.tagSet
                self.obj.setComponentByType(ts, v)
            self.D = dict(D or {})
            self.D[nm] = v
            return (op, nm, repr(v))
        if op == 'clear':
            self.obj.clear()
            after_clear(self.obj, 'clear')
            self.D = {}
            return ('clear',)
        if op == 'reset':
            self.obj.reset()
            after_clear(self.obj, 'reset')
            self.D = None
            return ('reset',)
        if op == 'clone':
            deep = rng.random() < 0.7
            c = self.obj.clone(cloneValueFlag=deep)
            if not deep:
                if c.isValue:
                    raise Mismatch('clone-without-values-is-a-value', repr(c)[:100])
                return ('clone-schema',)
            if rng.random() < 0.5:
                c['a'] = 424242
                self.observe('after mutating a deep clone (original)')
                return ('clone-deep-mutated',)
            self.obj = c
            if self.D is None:
                self.D = None
            return ('clone-deep-continue',)
        if op == 'read':
            which = rng.choice(['get-name', 'get-pos', 'get-item', 'gcn-false', 'gcn-true-present', 'values', 'items',
                                'pretty', 'repr', 'eq', 'len', 'get-absent-false', 'get-type'])
            if D is None and which not in ('pretty', 'repr', 'gcn-false', 'get-absent-false'):
                return ('noop',)
            present = [n_ for n_ in NAMES if D and n_ in D]
            if which == 'get-type' and self.kind != 'set':
                which = 'get-name'
            if which in ('get-name', 'get-pos', 'get-item', 'gcn-true-present', 'get-type'):
                if not present:
                    return ('noop',)
                n_ = rng.choice(present)
                if which == 'get-type':
                    # tag-addressed read (SET only)
                    ts = self.obj.componentType[n_].asn1Object.tagSet
                    c = self.obj.getComponentByType(ts, instantiate=rng.random() < 0.5)
                elif which == 'get-name':
                    c = self.obj.getComponentByName(n_)
                elif which == 'get-pos':
                    c = self.obj.getComponentByPosition(NAMES.index(n_))
                elif which == 'get-item':
                    c = self.obj[n_] if rng.random() < 0.5 else self.obj[NAMES.index(n_)]
                else:
                    c = self.obj.getComponentByName(n_, instantiate=True)
                got = c.asOctets() if n_ == 'b' else (bool(int(c)) if n_ == 'c' else int(c))
                if got != D[n_]:
                    raise Mismatch('read-of-member-differs', '%s: %r model %r' % (n_, got, D))
            elif which in ('gcn-false', 'get-absent-false'):
                n_ = rng.choice(NAMES)
                c = self.obj.getComponentByName(n_, default=None, instantiate=False)
                if (c is not None) != bool(D and n_ in D) and not (n_ == 'c' and c is not None):
                    raise Mismatch('getComponentByName-instantiate-False-differs', '%s model %r' % (n_, D))
            elif which == 'values':
                list(self.obj.values())
            elif which == 'items':
                list(self.obj.items())
            elif which == 'pretty':
                self.obj.prettyPrint()
            elif which == 'repr':
                repr(self.obj)
            elif which == 'eq':
                self.obj == self.obj
            elif which == 'len':
                len(self.obj)
            return ('read:' + which,)
        if op == 'bad-name':
            if rng.random() < 0.5:
                expect_reject(lambda: self.obj['nope'], (KeyError,))
            else:
                expect_reject(lambda: self.obj.setComponentByName('nope', 1), (KeyError,))
            return ('bad-name',)
        if op == 'bad-pos':
            i = rng.choice([5, 6, 17])
            if rng.random() < 0.5:
                expect_reject(lambda: self.obj.setComponentByPosition(i, 1), (IndexError,))
            else:
                expect_reject(lambda: self.obj.getComponentByPosition(i, instantiate=False) and None or
                              (_ for _ in ()).throw(IndexError()), (IndexError,))
            return ('bad-pos', i)
        if op == 'bad-value':
            expect_reject(lambda: self.obj.setComponentByName('a', 'not-a-number'), (ValueError, TypeError))
            return ('bad-value',)
        return ('noop',)


# ------------------------------------------------------------------ records with OPTIONAL components of constructed type

NEST_FIELDS = (('a', ('int',), 'req', None),
               ('e', ('tag', 'I', 'C', 1, ('seqof', INT)), 'opt', None),
               ('f', ('tag', 'I', 'C', 2, ('seq', (('x', INT, 'req', None), ('y', ('octs',), 'opt', None)))), 'opt', None),
               ('g', ('tag', 'I', 'C', 3, ('setof', INT)), 'opt', None))
NESTT = {'seq': ('seq', NEST_FIELDS), 'set': ('set', NEST_FIELDS)}
NNAMES = ['a', 'e', 'f', 'g']


def nest_schema(kind):
    def ctx(n):
        return tag.Tag(tag.tagClassContext, tag.tagFormatSimple, n)
    inner = univ.Sequence(componentType=namedtype.NamedTypes(
        namedtype.NamedType('x', univ.Integer()), namedtype.OptionalNamedType('y', univ.OctetString())))
    nts = [namedtype.NamedType('a', univ.Integer()),
           namedtype.OptionalNamedType('e', univ.SequenceOf(componentType=univ.Integer()).subtype(implicitTag=ctx(1))),
           namedtype.OptionalNamedType('f', inner.subtype(implicitTag=ctx(2))),
           namedtype.OptionalNamedType('g', univ.SetOf(componentType=univ.Integer()).subtype(implicitTag=ctx(3)))]
    return (univ.Sequence if kind == 'seq' else univ.Set)(componentType=namedtype.NamedTypes(*nts))


class NestedCase(object):
    """SEQUENCE / SET whose OPTIONAL members are a SEQUENCE OF, a SEQUENCE and a SET OF: the model is a dict holding
    lists and a dict; nested members are replaced as a whole and mutated in place through the parent."""

    def __init__(self, kind):
        self.kind = kind
        self.obj = nest_schema(kind)
        self.D = {}
        self.T = NESTT[kind]
        self.kf_hit = False

    def read_member(self, nm, c):
        if nm == 'a':
            return int(c)
        if nm in ('e', 'g'):
            if not c.isValue:
                raise Mismatch('present-list-member-is-not-a-value', nm)
            out = [int(x) for x in c]
            if len(c) != len(out):
                raise Mismatch('nested-length-differs', '%s: len %d, iteration %r' % (nm, len(c), out))
            for i in range(len(out)):
                if int(c[i]) != out[i] or int(c.getComponentByPosition(i, instantiate=False)) != out[i]:
                    raise Mismatch('nested-position-read-differs', '%s[%d]' % (nm, i))
            return out
        out = {'x': int(c['x'])}
        y = c.getComponentByName('y', default=None, instantiate=False)
        if y is not None:
            out['y'] = y.asOctets()
        return out

    def observe(self, where):
        obj, D = self.obj, self.D
        try:
            want_value = D is not None and 'a' in D
            if obj.isValue != want_value:
                raise Mismatch('isValue-differs', '%s: obj %s model %r' % (where, obj.isValue, D))
            if D is None:
                return
            if list(obj) != NNAMES:
                raise Mismatch('iteration-differs', '%s: %r' % (where, list(obj)))
            for nm in NNAMES:
                c = obj.getComponentByName(nm, default=None, instantiate=False)
                if nm in D:
                    if c is None:
                        raise Mismatch('component-lost', '%s: %s model %r' % (where, nm, D))
                    got = self.read_member(nm, c)
                    want = D[nm]
                    if (sorted(got) != sorted(want)) if nm == 'g' else (got != want):
                        raise Mismatch('abstract-content-differs', '%s: %s = %r model %r' % (where, nm, got, want))
                elif c is not None:
                    raise Mismatch('component-appeared', '%s: %s model %r' % (where, nm, D))
            if want_value:
                e = der_encoder.encode(obj)
                # expectation: X.690 DER, except inside the zone of the pinned emptyable-optional finding (a present
                # and empty OPTIONAL SEQUENCE OF / SET OF is left out by the CER/DER encoders), where the output must
                # equal the emulation of exactly that deviation; the hit is reported once per history
                want, used = R.like_pyasn1_used(self.T, D, 'DER', True, 0, {'emptyable-optional'})
                if used:
                    self.kf_hit = True
                if e != want:
                    raise Mismatch('der-differs', '%s: %s vs %s for %r' % (where, e.hex(), want.hex(), D))
        except Mismatch:
            raise
        except Exception as ex:
            raise Mismatch('observation-raised:' + type(ex).__name__, '%s: %s (model %r)' % (where, ex, D))

    def build_member(self, rng, nm, v):
        proto = self.obj.componentType[nm].asn1Object
        o = proto.clone()
        if nm in ('e', 'g'):
            o.clear()
            how = rng.choice(['append', 'extend', 'setitem-descending', 'setitem-shuffled'])
            if how == 'append':
                for x in v:
                    o.append(x)
            elif how == 'extend':
                o.extend(v)
            else:
                idxs = list(range(len(v)))
                if how == 'setitem-descending':
                    idxs.reverse()
                else:
                    rng.shuffle(idxs)
                for i in idxs:
                    o[i] = v[i]
            return o, how
        o['x'] = v['x']
        if 'y' in v:
            o['y'] = v['y']
        return o, 'fields'

    def gen(self, rng, nm):
        if nm == 'a':
            return rng.randint(-3, 300)
        if nm in ('e', 'g'):
            return [rng.randint(-2, 40) for _ in range(rng.choice([0, 1, 2, 3, 5]))]
        v = {'x': rng.randint(0, 9)}
        if rng.random() < 0.5:
            v['y'] = bytes(rng.getrandbits(8) for _ in range(rng.randint(0, 2)))
        return v

    def step(self, rng):
        D = self.D
        if D and rng.random() < 0.08:
            present0 = [n_ for n_ in ('e', 'f', 'g') if n_ in D]
            if present0:
                # an OPTIONAL member of constructed type that holds something is unset: it is gone, contents and all
                nm = rng.choice(present0)
                how = rng.choice(['setitem', 'set-name', 'set-pos', 'set-pos-noarg'])
                if how == 'setitem':
                    self.obj[nm] = univ.noValue
                elif how == 'set-name':
                    self.obj.setComponentByName(nm, univ.noValue)
                elif how == 'set-pos':
                    self.obj.setComponentByPosition(NNAMES.index(nm), univ.noValue)
                else:
                    self.obj.setComponentByPosition(NNAMES.index(nm))
                self.D = dict(D)
                del self.D[nm]
                return ('unset', nm, how)
        op = rng.choice(['set-whole', 'set-whole', 'set-a', 'nested-append', 'nested-setitem', 'nested-field', 'nested-sort',
                         'nested-clear', 'clear', 'reset', 'clone', 'read', 'read', 'read', 'bad-nested', 'bad-name'])
        if op == 'set-a':
            v = self.gen(rng, 'a')
            if rng.random() < 0.5:
                self.obj['a'] = v
            else:
                self.obj.setComponentByPosition(0, v)
            self.D = dict(D or {})
            self.D['a'] = v
            return ('set-a', v)
        if op == 'set-whole':
            nm = rng.choice(['e', 'f', 'g'])
            v = self.gen(rng, nm)
            o, how = self.build_member(rng, nm, v)
            r = rng.random()
            if r < 0.4:
                self.obj[nm] = o
            elif r < 0.7:
                self.obj.setComponentByName(nm, o)
            else:
                self.obj.setComponentByPosition(NNAMES.index(nm), o)
            self.D = dict(D or {})
            self.D[nm] = list(v) if nm != 'f' else dict(v)
            return ('set-whole', nm, how, repr(v))
        present = [n_ for n_ in ('e', 'f', 'g') if D and n_ in D]
        if op in ('nested-append', 'nested-setitem', 'nested-sort', 'nested-clear'):
            lists = [n_ for n_ in present if n_ != 'f']
            if not lists:
                return ('noop',)
            nm = rng.choice(lists)
            inner = self.obj[nm]
            self.D = dict(D)
            L = list(D[nm])
            if op == 'nested-append':
                x = rng.randint(-2, 40)
                inner.append(x)
                L.append(x)
            elif op == 'nested-setitem':
                if not L:
                    return ('noop',)
                i = rng.randrange(len(L))
                x = rng.randint(-2, 40)
                inner[i] = x
                L[i] = x
            elif op == 'nested-sort':
                inner.sort(key=int)
                L.sort()
            else:
                inner.clear()
                L = []
            self.D[nm] = L
            return (op, nm)
        if op == 'nested-field':
            if 'f' not in present:
                return ('noop',)
            self.D = dict(D)
            F = dict(D['f'])
            if rng.random() < 0.5:
                F['x'] = rng.randint(0, 9)
                self.obj['f']['x'] = F['x']
            else:
                F['y'] = bytes(rng.getrandbits(8) for _ in range(rng.randint(0, 2)))
                self.obj['f'].setComponentByName('y', F['y'])
            self.D['f'] = F
            return ('nested-field',)
        if op == 'clear':
            self.obj.clear()
            after_clear(self.obj, 'clear')
            self.D = {}
            return ('clear',)
        if op == 'reset':
            self.obj.reset()
            after_clear(self.obj, 'reset')
            self.D = None
            return ('reset',)
        if op == 'clone':
            deep = rng.random() < 0.8
            c = self.obj.clone(cloneValueFlag=deep)
            if not deep:
                if c.isValue:
                    raise Mismatch('clone-without-values-is-a-value', repr(c)[:100])
                return ('clone-schema',)
            if rng.random() < 0.3:
                partial_clone_probe(rng, self.kind if hasattr(self, 'kind') else 'seq')
                return ('clone-deep-of-partly-filled-record',)
            if rng.random() < 0.6 and present:
                # a deep clone shares nothing with the original: mutate the clone's nested members
                for nm in present:
                    if nm == 'f':
                        c['f']['x'] = 4242
                    else:
                        c[nm].append(4242)
                self.observe('after mutating nested members of a deep clone (original)')
                return ('clone-deep-nested-mutated',)
            self.obj = c
            return ('clone-deep-continue',)
        if op == 'read':
            if D is None:
                which = rng.choice(['pretty', 'repr'])
            else:
                which = rng.choice(['pretty', 'repr', 'values', 'items', 'eq', 'ber', 'cer', 'native', 'get-present', 'len-nested',
                                    'iter-nested', 'in'])
            if which == 'pretty':
                self.obj.prettyPrint()
            elif which == 'repr':
                repr(self.obj)
            elif which == 'values':
                list(self.obj.values())
            elif which == 'items':
                list(self.obj.items())
            elif which == 'eq':
                if 'a' in D:
                    self.obj == self.obj
            elif which in ('ber', 'cer', 'native'):
                if 'a' in D:
                    if which == 'ber':
                        ber_encoder.encode(self.obj, defMode=rng.random() < 0.5)
                    elif which == 'cer':
                        cer_encoder.encode(self.obj)
                    else:
                        native_encoder.encode(self.obj)
            elif which == 'get-present':
                if present:
                    nm = rng.choice(present)
                    c = rng.choice([lambda: self.obj[nm], lambda: self.obj.getComponentByName(nm),
                                    lambda: self.obj.getComponentByPosition(NNAMES.index(nm)),
                                    lambda: self.obj.getComponentByName(nm, instantiate=True)])()
                    got = self.read_member(nm, c)
                    if (sorted(got) != sorted(D[nm])) if nm == 'g' else (got != D[nm]):
                        raise Mismatch('read-of-member-differs', '%s: %r model %r' % (nm, got, D[nm]))
            elif which in ('len-nested', 'iter-nested'):
                for nm in present:
                    if nm != 'f':
                        len(self.obj[nm])
                        list(self.obj[nm])
            elif which == 'in':
                'e' in self.obj
            return ('read:' + which,)
        if op == 'bad-nested':
            lists = [n_ for n_ in present if n_ != 'f']
            if lists:
                nm = rng.choice(lists)
                expect_reject(lambda: self.obj[nm].append('not-a-number'), (ValueError, TypeError))
            elif 'f' in present:
                expect_reject(lambda: self.obj['f']['nope'], (KeyError,))
            else:
                return ('noop',)
            return ('bad-nested',)
        if op == 'bad-name':
            expect_reject(lambda: self.obj.setComponentByName('nope', 1), (KeyError,))
            return ('bad-name',)
        return ('noop',)


# ------------------------------------------------------------------ field-less (dynamic) records

class DynCase(object):
    """SEQUENCE without declared components <-> ordered mapping field-<i> -> value, positions contiguous."""

    def __init__(self):
        self.obj = univ.Sequence()
        self.L = None
        self.T = ('seqof', INT)     # for DER: a field-less SEQUENCE of INTEGERs encodes like SEQUENCE OF INTEGER

    def observe(self, where):
        obj, L = self.obj, self.L
        try:
            if obj.isValue != (L is not None):
                raise Mismatch('isValue-differs', '%s: obj %s model %r' % (where, obj.isValue, L))
            if L is not None:
                if len(obj) != len(L):
                    raise Mismatch('len-differs', '%s: %d vs %r' % (where, len(obj), L))
                names = ['field-%d' % i for i in range(len(L))]
                if list(obj) != names:
                    raise Mismatch('iteration-differs', '%s: %r vs %r' % (where, list(obj), names))
                got = [int(obj.getComponentByPosition(i, instantiate=False)) for i in range(len(L))]
                if got != L:
                    raise Mismatch('abstract-content-differs', '%s: %r vs %r' % (where, got, L))
                e = der_encoder.encode(obj)
                want = R.der(self.T, L)
                if e != want:
                    raise Mismatch('der-differs', '%s: %s vs %s' % (where, e.hex(), want.hex()))
        except Mismatch:
            raise
        except Exception as ex:
            raise Mismatch('observation-raised:' + type(ex).__name__, '%s: %s (model %r)' % (where, ex, L))

    def step(self, rng):
        L = self.L
        n = len(L or [])
        op = rng.choice(['set', 'set', 'set', 'clear', 'reset', 'read', 'read', 'clone', 'bad-pos', 'bad-name'])
        x = rng.randint(0, 9)
        if op == 'set':
            i = rng.randint(0, n)
            self.obj.setComponentByPosition(i, univ.Integer(x))
            L = list(L or [])
            if i == n:
                L.append(x)
            else:
                L[i] = x
            self.L = L
            return ('set', i, x)
        if op == 'clear':
            self.obj.clear()
            after_clear(self.obj, 'clear')
            self.L = []
            return ('clear',)
        if op == 'reset':
            self.obj.reset()
            after_clear(self.obj, 'reset')
            self.L = None
            return ('reset',)
        if op == 'read':
            if not n:
                return ('noop',)
            i = rng.randrange(n)
            which = rng.choice(['pos', 'name', 'item', 'values', 'pretty'])
            if which == 'pos':
                got = int(self.obj.getComponentByPosition(i))
            elif which == 'name':
                got = int(self.obj.getComponentByName('field-%d' % i))
            elif which == 'item':
                got = int(self.obj['field-%d' % i])
            elif which == 'values':
                got = [int(v) for v in self.obj.values()][i]
            else:
                self.obj.prettyPrint()
                got = L[i]
            if got != L[i]:
                raise Mismatch('read-of-member-differs', '%d: %r vs %r' % (i, got, L))
            return ('read:' + which,)
        if op == 'clone':
            c = self.obj.clone(cloneValueFlag=True)
            self.obj = c
            return ('clone-deep-continue',)
        if op == 'bad-pos':
            expect_reject(lambda: self.obj.setComponentByPosition(n + 2, univ.Integer(1)), (IndexError,))
            return ('bad-pos',)
        if op == 'bad-name':
            # a name that never existed, and names of positions that do not exist (any more): reads and stores by
            # such a name are refused and change nothing
            nm = rng.choice(['nope', 'field-%d' % n, 'field-%d' % (n + 1), 'field-%d' % (n + rng.randint(0, 3))])
            how = rng.choice(['getitem', 'get-name', 'get-name-no-instantiate', 'setitem', 'set-name'])
            if how == 'getitem':
                expect_reject(lambda: self.obj[nm], (KeyError,))
            elif how == 'get-name':
                expect_reject(lambda: self.obj.getComponentByName(nm), (KeyError,))
            elif how == 'get-name-no-instantiate':
                expect_reject(lambda: self.obj.getComponentByName(nm, instantiate=False), (KeyError,))
            elif how == 'setitem':
                expect_reject(lambda: self.obj.__setitem__(nm, univ.Integer(1)), (KeyError,))
            else:
                expect_reject(lambda: self.obj.setComponentByName(nm, univ.Integer(1)), (KeyError,))
            return ('bad-name', how)
        return ('noop',)


# ------------------------------------------------------------------ deep clones of partly filled records

def _inner_schema():
    return univ.Sequence(componentType=namedtype.NamedTypes(
        namedtype.NamedType('a', univ.Integer()), namedtype.NamedType('b', univ.Integer()),
        namedtype.OptionalNamedType('c', univ.OctetString())))


def _outer_schema(kind):
    cls = univ.Sequence if kind != 'set' else univ.Set
    ctx = lambda n, t: t.subtype(implicitTag=tag.Tag(tag.tagClassContext, tag.tagFormatSimple, n))
    return cls(componentType=namedtype.NamedTypes(
        namedtype.NamedType('id', univ.Integer()),
        namedtype.NamedType('inner', ctx(0, _inner_schema())),
        namedtype.NamedType('lst', ctx(1, univ.SequenceOf(componentType=_inner_schema()))),
        namedtype.OptionalNamedType('ch', univ.Choice(componentType=namedtype.NamedTypes(
            namedtype.NamedType('r', ctx(2, _inner_schema())), namedtype.NamedType('n', univ.Null()))))))


def _snap(obj):
    """What a partly filled object holds; members never stored (and read placeholders holding nothing) do not show."""
    if isinstance(obj, univ.Choice):
        try:
            name = obj.getName()
        except error.PyAsn1Error:
            return None
        inner = _snap(obj.getComponent())
        return (name, inner)
    if isinstance(obj, univ.SequenceOfAndSetOfBase):
        if not obj.isValue:
            return None
        return [_snap(obj.getComponentByPosition(i)) for i in range(len(obj))]
    if isinstance(obj, univ.SequenceAndSetBase):
        out = {}
        for i, nt in enumerate(obj.componentType.namedTypes):
            # (the non-instantiating accessor hides members that are not values yet; an instantiating read returns
            # what is stored and leaves an empty placeholder where nothing was - which the snapshot prunes)
            c = obj.getComponentByPosition(i)
            if c is univ.noValue:
                continue
            v = _snap(c)
            if v is None or v == {}:
                continue
            out[nt.name] = v
        return out
    if obj is None or obj is univ.noValue or not obj.isValue:
        return None
    if isinstance(obj, univ.OctetString):
        return bytes(obj)
    if isinstance(obj, univ.Null):
        return ''
    return int(obj)


def _fill_inner(rng, rec):
    for nm in ('a', 'b', 'c'):
        if rng.random() < 0.5:
            rec[nm] = rng.randint(0, 99) if nm != 'c' else bytes([rng.randint(0, 255)])


def partial_clone_probe(rng, kind):
    """clone(cloneValueFlag=True) of a record at any moment of its construction: members that are themselves
    records, lists of records or a CHOICE holding a record and that are only partly filled (mandatory fields still
    missing, so they are not values yet) keep what they hold, and the copy is independent in both directions."""
    import copy
    o = _outer_schema(kind)
    if rng.random() < 0.7:
        o['id'] = rng.randint(0, 9)
    if rng.random() < 0.8:
        _fill_inner(rng, o['inner'])
    if rng.random() < 0.6:
        o['lst'].clear()
        for _ in range(rng.randint(0, 3)):
            m = _inner_schema()
            _fill_inner(rng, m)
            # (a member that holds nothing cannot be appended: keep at least one field)
            if _snap(m) == {}:
                m['a'] = 1
            o['lst'].append(m)
    r = rng.random()
    if r < 0.3:
        _fill_inner(rng, o['ch']['r'])
        if _snap(o['ch']['r']) == {}:
            o['ch']['r']['b'] = 2
    elif r < 0.45:
        o['ch']['n'] = ''
    want = copy.deepcopy(_snap(o))
    c = o.clone(cloneValueFlag=True)
    if _snap(c) != want:
        raise Mismatch('deep-clone-of-partly-filled-record-differs', 'clone %r original %r' % (_snap(c), want))
    if _snap(o) != want:
        raise Mismatch('deep-clone-changed-the-original', '%r vs %r' % (_snap(o), want))
    def mutate(x):
        x['inner']['b'] = 4242
        x['lst'].append(_inner_schema().clone())
        x['lst'][len(x['lst']) - 1]['a'] = 4242
        if want.get('lst'):
            x['lst'][0]['c'] = b'mutated'
        if want.get('ch', ('n',))[0] == 'r':
            x['ch']['r']['a'] = 4242
    mutate(c)
    if _snap(o) != want:
        raise Mismatch('deep-clone-of-partly-filled-record-shares-state', 'original %r vs %r' % (_snap(o), want))
    c2 = o.clone(cloneValueFlag=True)
    if _snap(c2) != want:
        raise Mismatch('deep-clone-of-partly-filled-record-differs', 'second clone %r vs %r' % (_snap(c2), want))
    mutate(o)
    if _snap(c2) != want:
        raise Mismatch('deep-clone-of-partly-filled-record-shares-state', 'clone %r vs %r' % (_snap(c2), want))


# ------------------------------------------------------------------ CHOICE

def choice_schema():
    return univ.Choice(componentType=namedtype.NamedTypes(
        namedtype.NamedType('x', univ.Integer()), namedtype.NamedType('y', univ.OctetString()),
        namedtype.NamedType('z', univ.Boolean().subtype(implicitTag=tag.Tag(tag.tagClassContext, tag.tagFormatSimple, 1)))))


ALTS = ['x', 'y', 'z']


class ChoiceCase(object):
    def __init__(self):
        self.obj = choice_schema()
        self.P = None
        self.T = CHOICET

    def gen(self, rng, nm):
        if nm == 'x':
            return rng.randint(-5, 300)
        if nm == 'y':
            return bytes(rng.getrandbits(8) for _ in range(rng.randint(0, 3)))
        return rng.random() < 0.5

    def observe(self, where):
        obj, P = self.obj, self.P
        try:
            if obj.isValue != (P is not None):
                raise Mismatch('isValue-differs', '%s: obj %s model %r' % (where, obj.isValue, P))
            if len(obj) != (1 if P else 0):
                raise Mismatch('len-differs', '%s: %d model %r' % (where, len(obj), P))
            held = [nm for nm in ALTS if obj.getComponentByName(nm, default=None, instantiate=False) is not None]
            if len(held) > 1:
                raise Mismatch('choice-holds-two-alternatives', '%s: %r' % (where, held))
            if list(obj.keys()) != ([P[0]] if P else []):
                raise Mismatch('keys-differ', '%s: %r model %r' % (where, list(obj.keys()), P))
            if P is not None:
                if list(obj) != [P[0]]:
                    raise Mismatch('iteration-differs', '%s: %r model %r' % (where, list(obj), P))
                if (P[0] in obj) is not True or any(nm in obj for nm in ALTS if nm != P[0]):
                    raise Mismatch('membership-differs', '%s: model %r' % (where, P))
                if obj.getName() != P[0]:
                    raise Mismatch('getName-differs', '%s: %r' % (where, obj.getName()))
                a = B.absval(obj, self.T)
                if a != P:
                    raise Mismatch('abstract-content-differs', '%s: %r vs %r' % (where, a, P))
                e = der_encoder.encode(obj)
                want = R.der(self.T, P)
                if e != want:
                    raise Mismatch('der-differs', '%s: %s vs %s' % (where, e.hex(), want.hex()))
            else:
                if list(obj) != []:
                    raise Mismatch('iteration-differs', '%s: %r on empty choice' % (where, list(obj)))
        except Mismatch:
            raise
        except Exception as ex:
            raise Mismatch('observation-raised:' + type(ex).__name__, '%s: %s (model %r)' % (where, ex, P))

    def step(self, rng):
        P = self.P
        op = rng.choice(['set', 'set', 'set-pos', 'set-type', 'clear', 'reset', 'read', 'read', 'clone', 'bad-name',
                         'bad-value', 'read-other-false'])
        nm = rng.choice(ALTS)
        if op in ('set', 'set-pos', 'set-type'):
            v = self.gen(rng, nm)
            if op == 'set':
                if rng.random() < 0.5:
                    self.obj[nm] = v
                else:
                    self.obj.setComponentByName(nm, v)
            elif op == 'set-pos':
                self.obj.setComponentByPosition(ALTS.index(nm), v)
            else:
                self.obj.setComponentByType(self.obj.componentType[nm].asn1Object.tagSet, v)
            self.P = (nm, v)
            return (op, nm, repr(v))
        if op == 'clear':
            self.obj.clear()
            after_clear(self.obj, 'clear')
            self.P = None
            return ('clear',)
        if op == 'reset':
            self.obj.reset()
            after_clear(self.obj, 'reset')
            self.P = None
            return ('reset',)
        if op == 'read':
            if P is None:
                return ('noop',)
            which = rng.choice(['getComponent', 'item', 'values', 'items', 'pretty', 'eq', 'gcn-true'])
            if which == 'getComponent':
                c = self.obj.getComponent()
            elif which == 'item':
                c = self.obj[P[0]]
            elif which == 'gcn-true':
                c = self.obj.getComponentByName(P[0], instantiate=True)
            elif which == 'values':
                c = list(self.obj.values())[0]
            elif which == 'items':
                k, c = list(self.obj.items())[0]
                if k != P[0]:
                    raise Mismatch('items-name-differs', '%r vs %r' % (k, P))
            else:
                if which == 'pretty':
                    self.obj.prettyPrint()
                else:
                    self.obj == self.obj
                return ('read:' + which,)
            got = c.asOctets() if P[0] == 'y' else (bool(int(c)) if P[0] == 'z' else int(c))
            if got != P[1]:
                raise Mismatch('read-of-member-differs', '%r vs %r' % (got, P))
            return ('read:' + which,)
        if op == 'read-other-false':
            other = rng.choice([a for a in ALTS if not P or a != P[0]])
            c = self.obj.getComponentByName(other, default=None, instantiate=False)
            if c is not None:
                raise Mismatch('non-selected-alternative-is-present', other)
            return ('read-other-false',)
        if op == 'clone':
            c = self.obj.clone(cloneValueFlag=True)
            self.obj = c
            return ('clone-deep-continue',)
        if op == 'bad-name':
            expect_reject(lambda: self.obj.setComponentByName('nope', 1), (KeyError,))
            return ('bad-name',)
        if op == 'bad-value':
            expect_reject(lambda: self.obj.setComponentByName('x', 'not-a-number'), (ValueError, TypeError))
            return ('bad-value',)
        return ('noop',)


# ------------------------------------------------------------------ valueless scalars

SCALARS = [univ.Integer, univ.Boolean, univ.Enumerated, univ.BitString, univ.OctetString, univ.Null,
           univ.ObjectIdentifier, univ.Real, char.UTF8String, char.IA5String, char.BMPString, useful.GeneralizedTime,
           useful.UTCTime, univ.Any]
SAMPLE_VALUE = {univ.Integer: 5, univ.Boolean: 1, univ.Enumerated: 2, univ.BitString: '1010', univ.OctetString: b'ab',
                univ.Null: '', univ.ObjectIdentifier: (1, 3, 6), univ.Real: 1.5, char.UTF8String: 'ab',
                char.IA5String: 'ab', char.BMPString: 'ab', useful.GeneralizedTime: '20170801120112Z',
                useful.UTCTime: '170801120112Z', univ.Any: b'\x05\x00'}
import operator as _op
SCALAR_OPS = [
    ('int', int), ('float', float), ('str', str), ('bytes', bytes), ('bool', bool), ('len', len), ('hash', hash),
    ('iter', lambda x: list(x)), ('getitem', lambda x: x[0]), ('neg', _op.neg), ('abs', abs), ('invert', _op.invert),
    ('add', lambda x: x + 1), ('radd', lambda x: 1 + x), ('sub', lambda x: x - 1), ('mul', lambda x: x * 2),
    ('floordiv', lambda x: x // 2), ('truediv', lambda x: x / 2), ('mod', lambda x: x % 2), ('pow', lambda x: x ** 2),
    ('lshift', lambda x: x << 1), ('rshift', lambda x: x >> 1), ('and', lambda x: x & 1), ('or', lambda x: x | 1),
    ('xor', lambda x: x ^ 1), ('eq', lambda x: x == 1), ('ne', lambda x: x != 1), ('lt', lambda x: x < 1),
    ('gt', lambda x: x > 1), ('le', lambda x: x <= 1), ('ge', lambda x: x >= 1), ('index', _op.index),
    ('contains', lambda x: 1 in x), ('concat-bytes', lambda x: x + b'a'), ('concat-str', lambda x: x + 'a'),
    ('eq-bytes', lambda x: x == b'ab'), ('eq-str', lambda x: x == 'ab'), ('asOctets', lambda x: x.asOctets()),
    ('asNumbers', lambda x: x.asNumbers()), ('prettyPrint', lambda x: x.prettyPrint()), ('round', round),
    ('reversed', lambda x: list(reversed(x))), ('asDateTime', lambda x: x.asDateTime), ('isPlusInf', lambda x: x.isPlusInf),
    ('asInteger', lambda x: x.asInteger()), ('asBinary', lambda x: x.asBinary()), ('asTuple', lambda x: x.asTuple()),
    ('tuple', tuple), ('divmod', lambda x: divmod(x, 2)), ('trunc', lambda x: __import__('math').trunc(x)),
    ('floor', lambda x: __import__('math').floor(x)), ('ceil', lambda x: __import__('math').ceil(x)),
    ('format', lambda x: '%s' % (x,)), ('dfmt', lambda x: '%d' % (x,)),
]


def check_schema_scalars(res):
    for cls in SCALARS:
        valobj = cls(SAMPLE_VALUE[cls])
        schema = cls()
        for name, fn in SCALAR_OPS:
            try:
                fn(valobj)
            except Exception:
                continue        # not an operation of this type
            case = ('c19-scalar', cls.__name__, name)
            res.case(U.case_hash(case), True)
            res.see('schema-scalar-ops')
            try:
                r = fn(schema)
            except error.PyAsn1Error:
                res.see('schema-scalar-op-refused')
                continue
            except Exception as ex:
                res.witness('schema-scalar:foreign-exception:' + type(ex).__name__, {'kind:scalar', 'op:' + name,
                                                                                     'class:' + cls.__name__}, case, ex)
                continue
            if r is asn1base.noValue:
                res.see('schema-scalar-op-returned-the-NoValue-sentinel')      # a placeholder, not data
                continue
            res.witness('schema-scalar:returned-data', {'kind:scalar', 'op:' + name, 'class:' + cls.__name__}, case,
                        repr(r)[:100])


# ------------------------------------------------------------------ driver

def make_case(kind):
    if kind in ('seqof', 'setof'):
        return ListCase(kind, True)
    if kind in ('seqof-untyped', 'setof-untyped'):
        return ListCase(kind.split('-')[0], False)
    if kind in ('seq', 'set'):
        return RecCase(kind)
    if kind in ('nested-seq', 'nested-set'):
        return NestedCase(kind.split('-')[1])
    if kind == 'dyn':
        return DynCase()
    return ChoiceCase()


KINDS = ['seqof', 'setof', 'seqof-untyped', 'setof-untyped', 'seq', 'set', 'dyn', 'choice', 'nested-seq', 'nested-set']


def run_history(res, kind, hseed, nsteps):
    rng = random.Random(hseed)
    c = make_case(kind)
    CURRENT[0] = c
    history = []
    feats = {'kind:' + kind}
    case = ('c19', kind, hseed, nsteps)
    risky = set()
    prev = None
    try:
        c.observe('fresh object')
        for i in range(nsteps):
            try:
                op = c.step(rng)
            except Mismatch as m:
                history.append('<failing op>')
                raise Mismatch(m.symptom, '%s after history %r' % (m.detail, history[-8:]))
            except REJECT as ex:
                raise Mismatch('well-formed-op-raised:' + type(ex).__name__, '%s after history %r' % (ex, history[-8:]))
            except Exception as ex:
                raise Mismatch('op-raised-foreign-exception:' + type(ex).__name__, '%s after history %r' % (ex, history[-8:]))
            history.append(op)
            res.see('op:' + op[0])
            name = op[0]
            if prev in ('clear',) and name in ('append', 'extend', 'set', 'setitem', 'set-name'):
                risky.add('clear->set')
            if prev == 'reset' and name.startswith('read'):
                risky.add('reset->read')
            if name.startswith('clone'):
                risky.add('clone-after-mutation')
            if name in ('sort', 'reverse') or name.startswith('slice-set'):
                risky.add(name.split(':')[0])
            prev = name
            try:
                c.observe('after %r' % (op,))
            except Mismatch as m:
                feats.add('op:' + name)
                raise Mismatch('after-%s:%s' % (name, m.symptom), '%s; history tail %r' % (m.detail, history[-8:]))
            res.see('steps-compared')
    except Mismatch as m:
        res.case(U.case_hash(case), True)
        res.witness(kind.split('-')[0] + ':' + m.symptom, feats, case, m.detail)
        return
    if getattr(c, 'kf_hit', False):
        res.witness('nested:emptyable-optional', feats | {'emu:emptyable-optional'}, case,
                    'a present and empty OPTIONAL SEQUENCE OF / SET OF member was left out of the DER encoding')
    for r in risky:
        res.see('risky-pair:' + r)
    res.case(U.case_hash(case), bool(risky))
    res.see('histories-ok')
    if len(res.samples) < 4:
        res.sample({'kind': kind, 'history': [repr(o) for o in history[:25]], 'steps': len(history)})


def run_shard(shard, tier, seed):
    res = H.Result(ID)
    rng = C.rng_for(seed, ID, shard['shard'])
    budget = C.Budget(tier)
    if shard['shard'] == 0:
        try:
            check_schema_scalars(res)
        except Exception:
            res.inconclusive.append('harness error: ' + H.fmt_exc())
    for i in range(shard['n']):
        if budget.expired(res):
            break
        kind = rng.choice(KINDS)
        try:
            run_history(res, kind, rng.getrandbits(48), rng.choice([5, 10, 20, 40]))
        except Exception:
            res.see('harness:error')
            if len(res.inconclusive) < 3:
                res.inconclusive.append('harness error: ' + H.fmt_exc())
    return res


def replay(case):
    res = H.Result(ID)
    if case[0] == 'c19':
        _, kind, hseed, nsteps = case
        run_history(res, kind, hseed, nsteps)
    elif case[0] == 'c19-scalar':
        check_schema_scalars(res)
        res.witnesses = [w for w in res.witnesses if repr(case) == w['case']]
    return res
