"""C15 DER/CER decoders enforce the canonical restrictions they implement, everywhere (DESIGN 4/C15)."""
from pyasn1.codec.cer import decoder as cer_decoder
from pyasn1.codec.der import decoder as der_decoder
from pyasn1.codec.ber import decoder as ber_decoder
from pyasn1 import error
from pyasn1.type import base as asn1base

from .. import universe as U
from .. import refx690 as R
from .. import build as B
from .. import harness as H
from . import common as C

ID = 'C15'
LEVEL = 'fault_enumeration'
TECHNIQUE = ('runtime monitoring with exhaustive fault enumeration: every single-element non-canonical rewrite of a '
             'reference DER encoding is fed to the real DER/CER decoders; oracle = must raise the library error')
RULE = ('fault space per encoding = every eligible element x {definite -> indefinite length, primitive -> two-segment '
        'constructed string, BOOLEAN FF -> 01 / 7f / fe}; each rewrite is valid BER for the same value (checked with '
        'the BER decoder and the independent reader) and is decoded with the guiding type and, for self-describing '
        'encodings, without; enumerated completely per encoding; evaluations = rewrites decoded; distinct_nontrivial = '
        'distinct rewritten byte strings')
ASSUMPTIONS = ['DER encodings come from the independent reference writer, so encoder defects do not pollute the inputs',
               'ANY contents are opaque and are never rewritten']
KEY_FEATURES = ('rewrite', 'tagging', 'spec', 'decoder')


def plan(tier, seed):
    return C.plan_counts(tier, 16 * 7000, 16 * 120000)


def check_case(res, T, v, bt=None):
    bt = bt or C.try_build(res, T, v)
    if bt is None:
        return
    der = R.der(T, v)
    try:
        d, rest = der_decoder.decode(der, asn1Spec=bt.schema)
        ok = not rest and U.canon(T, B.absval(d, T)) == bt.cv
    except Exception:
        ok = False
    if not ok:
        res.see('skipped:original-der-not-accepted')
        return
    try:
        d0, rest0 = der_decoder.decode(der)
        nospec_ok = not rest0 and isinstance(d0, asn1base.Asn1Item)
    except Exception:
        nospec_ok = False
    n = 0
    for kind, depth, tagging, x in R.rewrites(T, der):
        n += 1
        # the rewrite must still be BER for the same value (self-check of the rewriter)
        try:
            rv, rr = R.read(T, x, 'BER')
            if rr or U.canon(T, rv) != bt.cv:
                raise AssertionError('rewrite changed the value')
        except Exception as ex:
            res.see('harness:rewrite-selfcheck-failed')
            if len(res.inconclusive) < 3:
                res.inconclusive.append('rewrite self-check failed: %s %r' % (ex, (T, v, kind)))
            continue
        decs = [('DER', der_decoder)]
        if kind == 'bool':
            decs.append(('CER', cer_decoder))
        for dname, dec in decs:
            for spec_mode in ('spec', 'nospec'):
                if spec_mode == 'nospec' and not nospec_ok:
                    continue
                case = ('c15', T, v, kind, x.hex(), dname, spec_mode)
                feats = set(bt.feats) | {'rewrite:' + kind, 'tagging:' + tagging, 'spec:' + spec_mode,
                                         'decoder:' + dname, 'depth:%d' % min(depth, 4)}
                res.case(U.case_hash(x, dname, spec_mode), True)
                res.see('rewrites:%s:%s:%s:%s' % (kind.split('-')[0], tagging, dname, spec_mode))
                res.see('depth:%d' % min(depth, 4))
                try:
                    if spec_mode == 'spec':
                        r = dec.decode(x, asn1Spec=bt.schema)
                    else:
                        r = dec.decode(x)
                    res.witness('accepted:%s:%s' % (dname.lower(), kind), feats, case, repr(r[0])[:200])
                except error.PyAsn1Error:
                    res.see('rejected')
                except Exception as ex:
                    c = H.classify_exception(ex)
                    res.witness('leak:%s' % c[1], feats, case, ex)
    res.see('encodings-enumerated-completely')
    if len(res.samples) < 4 and n:
        res.sample(C.sample_of(T, v, der_hex=der.hex()[:160], rewrites=n, last_rewrite=(kind, x.hex()[:160])))


def run_shard(shard, tier, seed):
    res = H.Result(ID)
    rng = C.rng_for(seed, ID, shard['shard'])
    budget = C.Budget(tier)
    for i in range(shard['n']):
        if budget.expired(res):
            break
        T, v = C.gen_case(rng, tier)
        try:
            check_case(res, T, v)
        except Exception:
            res.see('harness:error')
            if len(res.inconclusive) < 3:
                res.inconclusive.append('harness error: ' + H.fmt_exc())
    return res


def replay(case):
    res = H.Result(ID)
    _, T, v, kind, xh, dname, spec_mode = case
    check_case(res, T, v)
    res.witnesses = [w for w in res.witnesses if ("'%s', '%s', '%s')" % (xh, dname, spec_mode)) in w['case']]
    return res


def finish_coverage(cov, m, tier):
    cov['exhaustive'] = True
    cov['exhaustive_note'] = 'every eligible element of every generated DER encoding was rewritten in every applicable way'
