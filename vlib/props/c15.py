"""C15 DER/CER decoders enforce the canonical restrictions they implement, everywhere (DESIGN 4/C15)."""
from pyasn1.codec.cer import decoder as cer_decoder
from pyasn1.codec.der import decoder as der_decoder
from pyasn1.codec.ber import decoder as ber_decoder
from pyasn1 import error
from pyasn1.type import base as asn1base

from .. import universe as U
from .. import refx690 as R
from .. import build as B
from .. import harness as H
from . import common as C

ID = 'C15'
LEVEL = 'fault_enumeration'
TECHNIQUE = ('runtime monitoring with exhaustive fault enumeration: every single-element non-canonical rewrite of a '
             'reference DER encoding is fed to the real DER/CER decoders; oracle = must raise the library error')
RULE = ('fault space per encoding = every eligible element x {definite -> indefinite length, primitive -> two-segment '
        'constructed string, BOOLEAN FF -> 01 / 7f / fe}; each rewrite is valid BER for the same value (checked with '
        'the BER decoder and the independent reader) and is decoded with the guiding type and, for self-describing '
        'encodings, without; enumerated completely per encoding; evaluations = rewrites decoded; distinct_nontrivial = '
        'distinct rewritten byte strings')
ASSUMPTIONS = ['DER encodings come from the independent reference writer, so encoder defects do not pollute the inputs',
               'ANY contents are opaque and are never rewritten']
KEY_FEATURES = ('rewrite', 'tagging', 'spec', 'decoder')


def plan(tier, seed):
    return C.plan_counts(tier, 16 * 7000, 16 * 120000)


def check_case(res, T, v, bt=None):
    bt = bt or C.try_build(res, T, v)
    if bt is None:
        return
    der = R.der(T, v)
    try:
        d, rest = der_decoder.decode(der, asn1Spec=bt.schema)
        ok = not rest and U.canon(T, B.absval(d, T)) == bt.cv
    except Exception:
        ok = False
    if not ok:
        res.see('skipped:original-der-not-accepted')
        return
    try:
        d0, rest0 = der_decoder.decode(der)
        nospec_ok = not rest0 and isinstance(d0, asn1base.Asn1Item)
    except Exception:
        nospec_ok = False
    n = 0
    for kind, depth, tagging, x in R.rewrites(T, der):
        n += 1
        # the rewrite must still be BER for the same value (self-check of the rewriter)
        try:
            rv, rr = R.read(T, x, 'BER')
            if rr or U.canon(T, rv) != bt.cv:
                raise AssertionError('rewrite changed the value')
        except Exception as ex:
            res.see('harness:rewrite-selfcheck-failed')
            if len(res.inconclusive) < 3:
                res.inconclusive.append('rewrite self-check failed: %s %r' % (ex, (T, v, kind)))
            continue
        decs = [('DER', der_decoder)]
        if kind == 'bool':
            decs.append(('CER', cer_decoder))
        for dname, dec in decs:
            for spec_mode in ('spec', 'nospec'):
                if spec_mode == 'nospec' and not nospec_ok:
                    continue
                case = ('c15', T, v, kind, x.hex(), dname, spec_mode)
                feats = set(bt.feats) | {'rewrite:' + kind, 'tagging:' + tagging, 'spec:' + spec_mode,
                                         'decoder:' + dname, 'depth:%d' % min(depth, 4)}
                res.case(U.case_hash(x, dname, spec_mode), True)
                res.see('rewrites:%s:%s:%s:%s' % (kind.split('-')[0], tagging, dname, spec_mode))
                res.see('depth:%d' % min(depth, 4))
                try:
                    if spec_mode == 'spec':
                        r = dec.decode(x, asn1Spec=bt.schema)
                    else:
                        r = dec.decode(x)
                    res.witness('accepted:%s:%s' % (dname.lower(), kind), feats, case, repr(r[0])[:200])
                except error.PyAsn1Error:
                    res.see('rejected')
                except Exception as ex:
                    c = H.classify_exception(ex)
                    res.witness('leak:%s' % c[1], feats, case, ex)
    res.see('encodings-enumerated-completely')
    if len(res.samples) < 4 and n:
        res.sample(C.sample_of(T, v, der_hex=der.hex()[:160], rewrites=n, last_rewrite=(kind, x.hex()[:160])))


# ------------------------------------------------------------------ inside resolved open types

def _tlv(cls, num, cons, content):
    return R.ident(cls, num, cons) + R.length_min(len(content)) + content


def opentype_outer(container, govkind, shape, anytag, g, inner_encodings):
    """DER of  SEQUENCE/SET { gov [PRIVATE 1000] IMPLICIT <int|oid>, blob <ANY / SEQUENCE OF ANY / SET OF ANY> }  with
    the given octet strings standing where the inner values go (the same layout props/c18.make_schema declares)."""
    gov = _tlv('P', 1000, False, R.int_content(g) if govkind == 'int' else R.oid_content(g))

    def wrap(x):
        return x if anytag == 'untagged' else _tlv('P', 1002, True, x)
    items = [wrap(x) for x in inner_encodings]
    if shape == 'single':
        blob = items[0]
    elif shape == 'seqof':
        blob = _tlv('U', 16, True, b''.join(items))
    else:
        blob = _tlv('U', 17, True, b''.join(sorted(items)))
    members = [gov, blob]
    if container == 'set':
        members.sort(key=lambda m: R.tag_sort_key(R.first_tag(m)))
    return _tlv('U', 16 if container == 'seq' else 17, True, b''.join(members))


def check_opentype(res, rng, tier):
    """A non-canonical element INSIDE the value of an open type: with resolution on, the DER (CER) decoder decodes
    that value too and has to refuse it there as everywhere else."""
    from . import c18
    container = rng.choice(['seq', 'set'])
    govkind = rng.choice(['int', 'oid'])
    shape = rng.choice(['single', 'seqof', 'setof'])
    anytag = rng.choice(['untagged', 'implicit', 'explicit'])
    if container == 'set' and anytag == 'untagged':
        anytag = 'explicit'
    o = C.opts_for(tier, rng, allow_any=False, depth=2, big_strings=False)
    Tin = U.gen_type(rng, o, depth=rng.choice([0, 1, 2]))
    vin = U.gen_value(rng, Tin, o, small=True)
    try:
        B.schema(Tin)
        inner = R.der(Tin, vin)
    except Exception:
        return
    g = c18.gov_value(govkind, 0)
    other = ('null',) if U.base_of(Tin)[0] != 'null' else ('bool',)
    tmap = [(g, Tin), (c18.gov_value(govkind, 1), other)]
    schema = c18.make_schema(container, govkind, shape, anytag, tmap)
    n_items = 1 if shape == 'single' else 2
    good = opentype_outer(container, govkind, shape, anytag, g, [inner] * n_items)
    try:
        d, rest = der_decoder.decode(good, asn1Spec=schema, decodeOpenTypes=True)
        if rest:
            raise ValueError('remainder')
    except Exception:
        res.see('skipped:open-type-original-not-accepted')     # C18's business (pinned findings of the inner value)
        return
    res.see('open-type-originals-accepted')
    for kind, depth, tagging, x in R.rewrites(Tin, inner):
        decs = [('DER', der_decoder)]
        if kind == 'bool':
            decs.append(('CER', cer_decoder))
        # one element rewritten (the last one, when there are two)
        bad = opentype_outer(container, govkind, shape, anytag, g, [inner] * (n_items - 1) + [x])
        for dname, dec in decs:
            case = ('c15-open', container, govkind, shape, anytag, Tin, vin, kind, x.hex(), dname)
            feats = {'rewrite:' + kind, 'tagging:' + tagging, 'decoder:' + dname, 'depth:%d' % min(depth + 2, 4),
                     'inside-open-type', 'shape:' + shape, 'anytag:' + anytag, 'container:' + container}
            res.case(U.case_hash(bad, dname, 'open'), True)
            res.see('rewrites-inside-open-type:%s:%s:%s' % (kind.split('-')[0], shape, dname))
            try:
                r = dec.decode(bad, asn1Spec=schema, decodeOpenTypes=True)
                res.witness('accepted:%s:%s' % (dname.lower(), kind), feats, case, repr(r[0])[:200])
            except error.PyAsn1Error:
                res.see('rejected')
            except Exception as ex:
                c = H.classify_exception(ex)
                res.witness('leak:%s' % c[1], feats, case, ex)


def run_shard(shard, tier, seed):
    res = H.Result(ID)
    rng = C.rng_for(seed, ID, shard['shard'])
    budget = C.Budget(tier)
    for i in range(shard['n']):
        if budget.expired(res):
            break
        T, v = C.gen_case(rng, tier)
        try:
            if i % 5 == 4:
                check_opentype(res, rng, tier)
            check_case(res, T, v)
        except Exception:
            res.see('harness:error')
            if len(res.inconclusive) < 3:
                res.inconclusive.append('harness error: ' + H.fmt_exc())
    return res


def replay(case):
    res = H.Result(ID)
    if case[0] == 'c15-open':
        from . import c18
        _, container, govkind, shape, anytag, Tin, vin, kind, xh, dname = case
        g = c18.gov_value(govkind, 0)
        other = ('null',) if U.base_of(Tin)[0] != 'null' else ('bool',)
        schema = c18.make_schema(container, govkind, shape, anytag, [(g, Tin), (c18.gov_value(govkind, 1), other)])
        n_items = 1 if shape == 'single' else 2
        inner = R.der(Tin, vin)
        bad = opentype_outer(container, govkind, shape, anytag, g, [inner] * (n_items - 1) + [bytes.fromhex(xh)])
        dec = der_decoder if dname == 'DER' else cer_decoder
        try:
            r = dec.decode(bad, asn1Spec=schema, decodeOpenTypes=True)
            res.witness('accepted:%s:%s' % (dname.lower(), kind), {'inside-open-type'}, case, repr(r[0])[:200])
        except error.PyAsn1Error:
            pass
        return res
    _, T, v, kind, xh, dname, spec_mode = case
    check_case(res, T, v)
    res.witnesses = [w for w in res.witnesses if ("'%s', '%s', '%s')" % (xh, dname, spec_mode)) in w['case']]
    return res


def finish_coverage(cov, m, tier):
    cov['exhaustive'] = True
    cov['exhaustive_note'] = 'every eligible element of every generated DER encoding was rewritten in every applicable way'
