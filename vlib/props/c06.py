"""C06 Truncated input is reported as insufficient data at every cut point (DESIGN 4/C06)."""
import io

from pyasn1.codec.ber import decoder as ber_decoder
from pyasn1.codec.ber import encoder as ber_encoder
from pyasn1.codec.cer import decoder as cer_decoder
from pyasn1.codec.cer import encoder as cer_encoder
from pyasn1.codec.der import decoder as der_decoder
from pyasn1.codec.der import encoder as der_encoder
from pyasn1 import error
from pyasn1.type import base as asn1base

from .. import universe as U
from .. import refx690 as R
from .. import build as B
from .. import harness as H
from .. import streams as S
from . import common as C

ID = 'C06'
LEVEL = 'fault_enumeration'
TECHNIQUE = ('runtime monitoring with exhaustive fault enumeration: every proper prefix of every generated encoding is '
             'fed to the one-shot decoder (bytes, BytesIO) and to the streaming decoder on a closing stream double; '
             'oracle = exception class / yielded item class')
RULE = ('fault space = all cut points k in [0, |e|) of each generated valid encoding e (BER definite / indefinite / '
        'chunked, CER, DER, reference BER variant) x presentation (bytes, BytesIO, seekable and non-seekable closing '
        'double) x {with type, without type}; enumerated completely per encoding (|e| <= bound); evaluations = '
        'truncated decodes; distinct_nontrivial = distinct (encoding, k) pairs with k > 0')
ASSUMPTIONS = ['"valid encoding" for an arm means the complete e decodes to v under the same arguments (checked first)',
               'closing double: once closed, read(n) returns the remaining octets, then b"" - like a file or socket']
KEY_FEATURES = ('presentation:seekable-double', 'presentation:raw-double', 'stream-ended-inside-a-multi-octet-read', 'spec:spec', 'spec:nospec')

DEC = {'BER': ber_decoder, 'CER': cer_decoder, 'DER': der_decoder}
POLLS = 3


def plan(tier, seed):
    return C.plan_counts(tier, 16 * 45, 16 * 2500)


def gen_encodings(res, bt, rng):
    T, v = bt.T, bt.v
    out = []
    for label, codec, enc, kw, dm, ck in (
            ('ber', 'BER', ber_encoder.encode, dict(defMode=True), True, 0),
            ('ber', 'BER', ber_encoder.encode, dict(defMode=False), False, 0),
            ('ber', 'BER', ber_encoder.encode, dict(defMode=rng.random() < 0.5, maxChunkSize=rng.choice([1, 2, 3, 7])),
             None, None),
            ('cer', 'CER', cer_encoder.encode, {}, False, 1000), ('der', 'DER', der_encoder.encode, {}, True, 0)):
        if dm is None:
            dm, ck = kw['defMode'], kw['maxChunkSize']
        o = C.encode_monitored(res, label, enc, bt.obj, kw, T, v, codec, dm, ck, set(bt.feats),
                               C.enc_case(T, v, codec, dm, ck))
        if o is not None:
            out.append(('%s%s%s' % (label, '' if dm else '-indef', '-chunk' if ck and codec == 'BER' else ''), codec, o[1]))
    x, ch = R.ber_variant(T, v, rng)
    out.append(('ref-variant', 'BER', x))
    return out


def is_underrun_exc(ex):
    return isinstance(ex, error.SubstrateUnderrunError)


def oneshot(res, dec, data, spec):
    try:
        if spec is None:
            r = dec.decode(data)
        else:
            r = dec.decode(data, asn1Spec=spec)
        return ('returned', r)
    except Exception as ex:
        return ('raised', ex)


def check_cut(res, bt, kind, codec, e, k, cutclass, spec_mode, tier_stream):
    T = bt.T
    spec = bt.schema if spec_mode == 'spec' else None
    dec = DEC[codec]
    prefix = e[:k]
    base_feats = set(bt.feats) | {'cut:' + cutclass, 'spec:' + spec_mode, 'enc:' + kind}
    res.see('cutclass:' + cutclass)
    for pres, substrate in (('bytes', prefix), ('bytesio', io.BytesIO(prefix))):
        case = ('c06', T, bt.v, codec, e.hex(), k, spec_mode, pres)
        feats = base_feats | {'presentation:' + pres}
        res.case(U.case_hash(codec, e, k, spec_mode, pres), k > 0)
        out = oneshot(res, dec, substrate, spec)
        if out[0] == 'returned':
            res.witness('oneshot:returned-a-value', feats, case, repr(out[1])[:300])
        elif not is_underrun_exc(out[1]):
            c = H.classify_exception(out[1])
            res.witness('oneshot:raised:%s' % (c if not isinstance(c, tuple) else 'leak:' + c[1]), feats, case, out[1])
        else:
            res.see('oneshot-underrun')
            res.see('exc:' + type(out[1]).__name__)
    if not tier_stream:
        return
    for pres, cls in (('seekable-double', S.SeekableSched), ('raw-double', S.RawSched)):
        case = ('c06', T, bt.v, codec, e.hex(), k, spec_mode, pres)
        feats = base_feats | {'presentation:' + pres}
        res.case(U.case_hash(codec, e, k, spec_mode, pres), k > 0)
        stream = cls(prefix)
        stream.gate.arrive(k)
        sd = dec.StreamingDecoder(stream, asn1Spec=spec) if spec is not None else dec.StreamingDecoder(stream)
        it = iter(sd)
        bad = False
        # open: must keep reporting underrun
        for poll in range(POLLS):
            try:
                x = next(it)
            except StopIteration:
                res.witness('open:iteration-stopped', feats, case, 'poll %d' % poll)
                bad = True
                break
            except Exception as ex:
                c = H.classify_exception(ex)
                res.witness('open:raised:%s' % (c if not isinstance(c, tuple) else 'leak:' + c[1]), feats, case, ex)
                bad = True
                break
            if isinstance(x, error.SubstrateUnderrunError):
                res.see('open-underrun-yielded')
                continue
            if isinstance(x, asn1base.Asn1Item):
                res.witness('open:yielded-an-object', feats, case, repr(x)[:200])
            else:
                res.witness('open:yielded-non-object', feats, case, repr(x)[:100])
            bad = True
            break
        if bad:
            continue
        # closed: must raise the end-of-stream error within a few steps
        stream.gate.close()
        last_partial = False
        outcome = None
        for step in range(POLLS + 1):
            n_before = len(stream.gate.log)
            try:
                x = next(it)
            except StopIteration:
                outcome = 'closed:iteration-stopped'
                break
            except error.EndOfStreamError:
                outcome = 'ok'
                break
            except Exception as ex:
                c = H.classify_exception(ex)
                outcome = 'closed:raised:%s' % (c if not isinstance(c, tuple) else 'leak:' + c[1])
                break
            reads = [ev for ev in stream.gate.log[n_before:] if ev[0] == 'read']
            if reads and reads[-1][3] not in (None, 0) and reads[-1][1] not in (None, -1) and reads[-1][3] < reads[-1][1]:
                last_partial = True
            if isinstance(x, error.SubstrateUnderrunError):
                outcome = 'closed:keeps-reporting-underrun'
                continue
            outcome = 'closed:yielded-an-object' if isinstance(x, asn1base.Asn1Item) else 'closed:yielded-non-object'
            break
        if outcome == 'ok':
            res.see('closed-eos-raised')
        else:
            # classification only (never the verdict): does the decoder sit in front of unread octets, i.e.
            # did the stream end inside a multi-octet read?
            try:
                sub = sd._substrate
                if pres == 'seekable-double':
                    remaining = k - sub.tell()
                else:
                    remaining = (k - stream.pos) + (len(sub._cache.getvalue()) - sub.tell())
            except Exception:
                remaining = -1
            if remaining > 0 or last_partial:
                feats = feats | {'stream-ended-inside-a-multi-octet-read'}
            res.witness(outcome, feats, case, 'log tail %r' % (stream.gate.log[-4:],))


def check_encoding(res, bt, kind, codec, e, tier, rng):
    T = bt.T
    dec = DEC[codec]
    # validity per arm: the complete encoding must decode to v with / without the type
    arms = []
    out = C.decode_outcome(dec.decode, e, bt.schema, T)
    if out[0] == 'ok' and not out[2] and U.canon(T, out[1]) == bt.cv:
        arms.append('spec')
    else:
        res.see('skipped:complete-encoding-does-not-decode')
        return
    try:
        d, rest = dec.decode(e)
        if not rest and isinstance(d, asn1base.Asn1Item) and d.isValue:
            arms.append('nospec')
    except Exception:
        pass
    try:
        nodes = R.tlv(e)
    except R.RefError:
        nodes = []
    n = len(e)
    limit = 160 if tier == 'quick' else 2500
    if n <= limit:
        ks = range(n)
        res.see('encodings-enumerated-completely')
    else:
        # long encodings: every header / end-of-octets position plus sampled content positions
        ks = sorted(set(k for k in range(n) if R.classify_offset(nodes, k) != 'in-content') |
                    set(rng.randrange(n) for _ in range(60)))
        res.see('encodings-sampled')
    for k in ks:
        cc = R.classify_offset(nodes, k) if nodes else 'unknown'
        for arm in arms:
            check_cut(res, bt, kind, codec, e, k, cc, arm, True)


def run_shard(shard, tier, seed):
    res = H.Result(ID)
    rng = C.rng_for(seed, ID, shard['shard'])
    budget = C.Budget(tier)
    for i in range(shard['n']):
        if budget.expired(res):
            break
        T, v = C.gen_case(rng, tier, big_strings=rng.random() < (0.01 if tier == 'quick' else 0.04))
        try:
            bt = C.try_build(res, T, v)
            if bt is None:
                continue
            for kind, codec, e in gen_encodings(res, bt, rng):
                check_encoding(res, bt, kind, codec, e, tier, rng)
            if len(res.samples) < 4:
                res.sample(C.sample_of(T, v, encoding=e.hex()[:120], cuts='all k in [0,%d)' % len(e)))
        except Exception:
            res.see('harness:error')
            if len(res.inconclusive) < 3:
                res.inconclusive.append('harness error: ' + H.fmt_exc())
    return res


def replay(case):
    if case[0] == 'enc':
        return C.replay_enc(ID, case)
    res = H.Result(ID)
    _, T, v, codec, eh, k, spec_mode, pres = case
    bt = C.try_build(res, T, v)
    if bt is None:
        return res
    e = bytes.fromhex(eh)
    try:
        cc = R.classify_offset(R.tlv(e), k)
    except R.RefError:
        cc = 'unknown'
    check_cut(res, bt, 'replay', codec, e, k, cc, spec_mode, True)
    res.witnesses = [w for w in res.witnesses if ("'%s')" % pres) in w['case']]
    return res


def finish_coverage(cov, m, tier):
    cov['exhaustive'] = m['obs'].get('encodings-sampled', 0) == 0
    cov['exhaustive_note'] = ('every cut point of every generated encoding was enumerated'
                              if cov['exhaustive'] else
                              'encodings longer than the bound had header/EOO positions enumerated and content sampled')
