"""C03 Encoder output equals the X.690 encoding computed by an independent reference (DESIGN 4/C03)."""
from pyasn1.codec.ber import encoder as ber_encoder
from pyasn1.codec.cer import encoder as cer_encoder
from pyasn1.codec.der import encoder as der_encoder

from .. import universe as U
from .. import refx690 as R
from .. import harness as H
from . import common as C

ID = 'C03'
LEVEL = 'exploration'
TECHNIQUE = ('runtime monitoring: differential oracle - DER bytes vs independent X.690 writer, BER/CER output read '
             'back by an independent X.690 reader, CER canonical-form checker')
RULE = ('cases = (type T, value v) from the seeded universe generator with the identifier/length boundary catalogue; '
        'each is encoded with DER, CER and one random BER mode; non-trivial = constructed, tagged or boundary-hitting; '
        'distinct = sha1 of (T, canon(v))')
ASSUMPTIONS = ['vlib.refx690 implements X.690 8-11 (self-checked on transcribed vectors and by writer/reader round trip '
               'on every case)', 'universe legality rules']
KEY_FEATURES = ('emu:stray-eoo', 'emu:emptyable-optional', 'emu:real-nr3-nodot', 'string>1000', 'type:bits')

EMU = {'DER': {'real-nr3-nodot', 'emptyable-optional', 'time-fraction-zeros', 'real-default-float'},
       'CER': {'real-nr3-nodot', 'emptyable-optional', 'stray-eoo', 'time-fraction-zeros', 'real-default-float'},
       'BER': {'real-nr3-nodot', 'emptyable-optional', 'stray-eoo', 'real-default-float'}}


def plan(tier, seed):
    return C.plan_counts(tier, 16 * 10000, 16 * 60000)


def locate_difference(T, ref, got):
    """Name the kind of element and region where `got` first departs from the reference DER."""
    i = 0
    n = min(len(ref), len(got))
    while i < n and ref[i] == got[i]:
        i += 1
    try:
        leaves = R.typed_leaves(T, ref, 'DER')
    except Exception:
        return 'unlocated'
    best = None
    for nd, kind, t in leaves:
        if nd.start <= i < max(nd.end, nd.start + 1) or (i == len(ref) and nd.end == i):
            if best is None or nd.start >= best[0].start:
                best = (nd, kind)
    if best is None:
        return 'unlocated'
    nd, kind = best
    if i < nd.len_off:
        region = 'identifier'
    elif i < nd.content_off:
        region = 'length'
    else:
        region = 'content'
    if kind in ('set', 'setof', 'seq', 'seqof') and region == 'content':
        region = 'members'
    return '%s-%s' % (kind, region)


def check_case(res, T, v, ber_mode, bt=None):
    bt = bt or C.try_build(res, T, v)
    if bt is None:
        return
    res.case(U.case_hash(T, bt.cv), U.base_of(T)[0] not in U.SIMPLE or T[0] == 'tag')
    # reference self-check (DESIGN 2.3): a failure here is a harness error, never a violation
    try:
        ref_der = R.der(T, v)
        ref_cer = R.cer(T, v)
        for nm, e in (('DER', ref_der), ('CER', ref_cer)):
            rv, rest = R.read(T, e, nm)
            if rest or U.canon(T, rv) != bt.cv:
                raise AssertionError('reference %s self-check' % nm)
        if R.cer_form_violations(ref_cer, T):
            raise AssertionError('reference CER form self-check')
        res.see('reference-selfchecks', 3)
    except Exception as ex:
        res.see('harness:reference-selfcheck-failed')
        res.inconclusive.append('reference self-check failed on %r: %s' % ((T, v), ex)) \
            if len(res.inconclusive) < 3 else None
        return

    for codec, enc, kw in (('DER', der_encoder.encode, {}), ('CER', cer_encoder.encode, {}),
                           ('BER', ber_encoder.encode, dict(defMode=ber_mode[0], maxChunkSize=ber_mode[1]))):
        case = ('c03', T, v, codec, ber_mode)
        feats = set(bt.feats)
        feats.add('codec:' + codec)
        emu_raises = None
        try:
            if codec == 'BER':
                want, used = R.like_pyasn1_used(T, v, 'BER', ber_mode[0], ber_mode[1], EMU[codec])
            else:
                want, used = R.like_pyasn1_used(T, v, codec, emulate=EMU[codec])
        except R.EmuRaises as er:
            emu_raises = er.args
            want, used = None, {er.args[1]}
        try:
            e = enc(bt.obj, **kw)
        except Exception as ex:
            c = H.classify_exception(ex)
            sym = c if not isinstance(c, tuple) else 'leak:' + c[1]
            if emu_raises and sym.startswith('leak:' + emu_raises[0] + '@'):
                feats.add('emu:' + emu_raises[1])
                res.witness('%s:%s' % (codec.lower(), emu_raises[1]), feats, case, ex)
            else:
                res.witness('%s:encode-raised:%s' % (codec.lower(), sym), feats, case, ex)
            continue
        res.see('encodings:' + codec)
        if emu_raises:
            res.witness('%s:in-zone-output-differs-from-emulation' % codec.lower(), feats, case,
                        'emulation raises %r, library returned %s' % (emu_raises, e.hex()[:200]))
            continue
        for u in used:
            feats.add('emu:' + u)
        if codec == 'DER':
            if e == ref_der:
                res.see('der-identical')
                continue
            if used and e == want:
                for u in used:
                    res.witness('der:' + u, feats, case, 'got %s ref %s' % (e.hex()[:300], ref_der.hex()[:300]))
                continue
            res.witness('der-bytes-differ:' + locate_difference(T, ref_der, e),
                        feats - set('emu:' + u for u in used), case,
                        'got %s ref %s' % (e.hex()[:500], ref_der.hex()[:500]))
            continue
        # BER / CER: value equality through the independent reader, CER form rules
        bug = used - {'real-nr3-nodot'}
        if bug:
            if e != want:
                res.witness('%s:in-zone-output-differs-from-emulation' % codec.lower(),
                            feats - set('emu:' + u for u in used), case,
                            'got %s want %s' % (e.hex()[:500], want.hex()[:500]))
            else:
                for u in bug:
                    res.witness('%s:%s' % (codec.lower(), u), feats, case, e.hex()[:300])
            continue
        try:
            rv, rest = R.read(T, e, 'BER')
        except (R.RefError, IndexError) as ex:
            res.witness('%s:not-readable-by-reference' % codec.lower(), feats, case, '%s on %s' % (ex, e.hex()[:500]))
            continue
        if rest:
            res.witness('%s:reference-leaves-remainder' % codec.lower(), feats, case, e.hex()[:500])
            continue
        if U.canon(T, rv) != bt.cv:
            res.witness('%s:reference-reads-different-value:%s' % (codec.lower(), C.diff_kind(T, v, rv)), feats, case,
                        'ref read %r from %s' % (rv, e.hex()[:500]))
            continue
        res.see(codec.lower() + '-read-back-equal')
        if codec == 'CER':
            viol = R.cer_form_violations(e, T)
            if viol:
                res.witness('cer-form:' + viol[0].split('(')[0], feats, case, '%s in %s' % (viol, e.hex()[:300]))
            else:
                res.see('cer-form-ok')
    if len(res.samples) < 4:
        res.sample(C.sample_of(T, v, der_hex=ref_der.hex()[:200]))


def check_realbase(res, fixed):
    """DER and CER write base 2 whatever base the REAL type asks for (X.690 11.3.1)."""
    base, m, e, wrap = fixed
    if wrap == 'explicit':
        return      # CER: zone of the pinned stray end-of-octets finding
    val, schema, pick = C.realbase_objects(base, m, e, wrap)
    T = {'bare': ('real',), 'implicit': ('tag', 'I', 'C', 40, ('real',)),
         'in-seq': ('seq', (('n', ('int',), 'req', None), ('r', ('real',), 'req', None))),
         'in-seqof': ('seqof', ('real',))}[wrap]
    r = ('r', m, 2, e)
    v = {'bare': r, 'implicit': r, 'in-seq': {'n': 7, 'r': r}, 'in-seqof': [r, r]}[wrap]
    for codec, enc, ref in (('DER', der_encoder.encode, R.der), ('CER', cer_encoder.encode, R.cer)):
        case = ('c03-realbase', base, m, e, wrap, codec)
        feats = {'type:real', 'real-base2', 'real-binEncBase:%d' % base, 'wrap:' + wrap, 'codec:' + codec}
        res.case(U.case_hash(case), True)
        res.see('realbase-cases')
        try:
            got = enc(val)
        except Exception as ex:
            c = H.classify_exception(ex)
            res.witness('%s:encode-raised:%s' % (codec.lower(), c if not isinstance(c, tuple) else 'leak:' + c[1]), feats, case, ex)
            continue
        want = ref(T, v)
        if got != want:
            res.witness('%s-bytes-differ:real' % codec.lower(), feats, case, 'got %s want %s' % (got.hex()[:200], want.hex()[:200]))
        else:
            res.see('realbase-canonical-ok')


LENGTH_BOUNDARIES = (128, 256, 32768, 65536)


def length_boundary_cases(tier):
    """(T, v) whose contents - and, through the wrappers, whose containers' contents - are as long as the values at
    which the long form of the length octets grows by an octet (and one bit below: 2**15 is where a length's own top bit
    is first set in a two-octet field), from a few octets below to just above; thorough adds 2**24"""
    out = []
    bounds = LENGTH_BOUNDARIES + ((1 << 24,) if tier == 'thorough' else ())
    for b in bounds:
        near = range(b - 7, b + 2) if b < (1 << 24) else (b - 5, b - 1, b)
        for n in near:
            body = bytes((i * 7 + n) & 0xff for i in range(n)) if b < (1 << 24) else b'\x5a' * n
            out.append((('octs',), body))
            if b == (1 << 24):
                continue
            out.append((('tag', 'E', 'C', 1, ('octs',)), body))
            out.append((('seq', (('a', ('octs',), 'req', None), ('b', ('bool',), 'opt', None))), {'a': body}))
            out.append((('tag', 'I', 'A', 40, ('setof', ('octs',))), [body]))
            out.append((('bits',), (8 * (n - 1), int.from_bytes(body[:n - 1], 'big'))))
            out.append((('int',), (1 << (8 * n - 2)) + 5))
            out.append((('int',), -(1 << (8 * n - 2)) - 5))
            out.append((('char', 'UTF8String'), 'a' * n))
            out.append((('char', 'BMPString'), 'ab' * (n // 2)))
            if n % 3 == 0:
                out.append((('seqof', ('int',)), [7] * (n // 3)))
                out.append((('setof', ('bool',)), [True] * (n // 3)))
    return out


def run_shard(shard, tier, seed):
    res = H.Result(ID)
    rng = C.rng_for(seed, ID, shard['shard'])
    for j, (T, v) in enumerate(length_boundary_cases(tier)):
        if j % C.NSHARDS != shard['shard']:
            continue
        try:
            check_case(res, T, v, (True, 0))
            res.see('length-boundary-cases')
        except Exception:
            res.see('harness:error')
            if len(res.inconclusive) < 3:
                res.inconclusive.append('harness error: ' + H.fmt_exc())
    for i in range(shard['n']):
        if i % 8 == 0:
            try:
                check_realbase(res, C.realbase_case(rng))
            except Exception:
                res.see('harness:error')
                if len(res.inconclusive) < 3:
                    res.inconclusive.append('harness error: ' + H.fmt_exc())
        T, v = C.gen_case(rng, tier, big_strings=rng.random() < 0.12)
        mode = (rng.random() < 0.5, rng.choice([0, 0, 1, 2, 3, 7, 1000, rng.randint(4, 40)]))
        try:
            check_case(res, T, v, mode)
        except Exception:
            res.see('harness:error')
            if len(res.inconclusive) < 3:
                res.inconclusive.append('harness error: ' + H.fmt_exc())
    return res


def replay(case):
    if case[0] == 'enc':
        return C.replay_enc(ID, case)
    res = H.Result(ID)
    if case[0] == 'c03-realbase':
        check_realbase(res, tuple(case[1:5]))
        res.witnesses = [w for w in res.witnesses if "'%s'" % case[5] in w['case']]
        return res
    _, T, v, codec, mode = case
    check_case(res, T, v, tuple(mode))
    res.witnesses = [w for w in res.witnesses if "'%s'" % codec in w['case']]
    return res
