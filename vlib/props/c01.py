"""C01 BER encode/decode round trip under every encoder mode (DESIGN 4/C01)."""
from pyasn1.codec.ber import decoder as ber_decoder
from pyasn1.codec.ber import encoder as ber_encoder

from .. import universe as U
from .. import refx690 as R
from .. import harness as H
from . import common as C

ID = 'C01'
LEVEL = 'exploration'
TECHNIQUE = 'runtime monitoring: round-trip oracle on abstract values over generated (type, value, mode) cases'
RULE = ('cases = (type T, value v, defMode, maxChunkSize) drawn from the seeded universe generator '
        '(boundary catalogue mixed in); a case is non-trivial when T is constructed, tagged, or a string longer '
        'than the chunk size, or v hits a boundary class; distinct = distinct sha1 of (T, canon(v), mode)')
ASSUMPTIONS = ['vlib.universe legality rules generate only ASN.1 types pyasn1 documents as supported',
               'vlib.build.absval reads objects only through public non-instantiating accessors',
               'vlib.refx690 (independent X.690 reference) emulates the pinned stray end-of-octets finding '
               'byte for byte inside its zone']
KEY_FEATURES = ('explicit-over-nonstring-primitive', 'multibyte-text', 'optional-emptyable-record',
                'explicit-over-choice', 'explicit-over-any', 'real-base10', 'indefinite', 'chunked')

CHUNKS = [0, 1, 2, 3, 7, 1000]


def plan(tier, seed):
    return C.plan_counts(tier, 16 * 5000, 16 * 60000)


def modes_for(rng):
    out = []
    for defMode in (True, False):
        out.append((defMode, 0))
        c = rng.choice(CHUNKS[1:] + [rng.randint(4, 40)])
        out.append((defMode, c))
    return out


def check_case(res, T, v, modes, bt=None):
    bt = bt or C.try_build(res, T, v)
    if bt is None:
        return
    for defMode, chunk in modes:
        case = ('c01', T, v, defMode, chunk)
        feats = set(bt.feats)
        if not defMode:
            feats.add('indefinite')
        if chunk:
            feats.add('chunked')
        nontrivial = U.base_of(T)[0] not in U.SIMPLE or T[0] == 'tag' or chunk
        res.case(U.case_hash(T, bt.cv, defMode, chunk), nontrivial)
        res.see('mode:def=%s,chunk=%s' % (defMode, chunk if chunk in CHUNKS else 'rnd'))
        out = C.encode_monitored(res, 'ber', ber_encoder.encode, bt.obj, dict(defMode=defMode, maxChunkSize=chunk),
                                 T, v, 'BER', defMode, chunk, feats, case)
        if out is None:
            continue
        e, data, used = out
        if C.check_roundtrip(res, 'ber', ber_decoder.decode, data, bt, case, feats):
            res.see('roundtrip-ok')
    if len(res.samples) < 4:
        res.sample(C.sample_of(T, v, modes=modes))


def run_shard(shard, tier, seed):
    res = H.Result(ID)
    rng = C.rng_for(seed, ID, shard['shard'])
    for i in range(shard['n']):
        T, v = C.gen_case(rng, tier, any_maker=R.ber_any_maker)
        try:
            check_case(res, T, v, modes_for(rng))
        except Exception:
            res.see('harness:error')
            if len(res.inconclusive) < 3:
                res.inconclusive.append('harness error: ' + H.fmt_exc())
    return res


def replay(case):
    if case[0] == 'enc':
        return C.replay_enc(ID, case)
    res = H.Result(ID)
    _, T, v, defMode, chunk = case
    check_case(res, T, v, [(defMode, chunk)])
    return res


def finish_coverage(cov, m, tier):
    cov['exhaustive'] = False
