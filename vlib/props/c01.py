"""C01 BER encode/decode round trip under every encoder mode (DESIGN 4/C01)."""
from pyasn1.codec.ber import decoder as ber_decoder
from pyasn1.codec.ber import encoder as ber_encoder

from .. import universe as U
from .. import refx690 as R
from .. import harness as H
from . import common as C

ID = 'C01'
LEVEL = 'exploration'
TECHNIQUE = 'runtime monitoring: round-trip oracle on abstract values over generated (type, value, mode) cases'
RULE = ('cases = (type T, value v, defMode, maxChunkSize) drawn from the seeded universe generator '
        '(boundary catalogue mixed in); a case is non-trivial when T is constructed, tagged, or a string longer '
        'than the chunk size, or v hits a boundary class; distinct = distinct sha1 of (T, canon(v), mode); every '
        'eighth case is a REAL type asking for base 8 / base 16 (Real.binEncBase) with boundary mantissas/exponents, '
        'bare, tagged or inside a SEQUENCE / SEQUENCE OF')
ASSUMPTIONS = ['vlib.universe legality rules generate only ASN.1 types pyasn1 documents as supported',
               'vlib.build.absval reads objects only through public non-instantiating accessors',
               'vlib.refx690 (independent X.690 reference) emulates the pinned stray end-of-octets finding '
               'byte for byte inside its zone']
KEY_FEATURES = ('explicit-over-nonstring-primitive', 'multibyte-text', 'optional-emptyable-record',
                'explicit-over-choice', 'explicit-over-any', 'real-base10', 'indefinite', 'chunked')

CHUNKS = [0, 1, 2, 3, 7, 1000]


def plan(tier, seed):
    return C.plan_counts(tier, 16 * 5000, 16 * 60000)


def modes_for(rng):
    out = []
    for defMode in (True, False):
        out.append((defMode, 0))
        c = rng.choice(CHUNKS[1:] + [rng.randint(4, 40)])
        out.append((defMode, c))
    return out


def check_case(res, T, v, modes, bt=None):
    bt = bt or C.try_build(res, T, v)
    if bt is None:
        return
    for defMode, chunk in modes:
        case = ('c01', T, v, defMode, chunk)
        feats = set(bt.feats)
        if not defMode:
            feats.add('indefinite')
        if chunk:
            feats.add('chunked')
        nontrivial = U.base_of(T)[0] not in U.SIMPLE or T[0] == 'tag' or chunk
        res.case(U.case_hash(T, bt.cv, defMode, chunk), nontrivial)
        res.see('mode:def=%s,chunk=%s' % (defMode, chunk if chunk in CHUNKS else 'rnd'))
        out = C.encode_monitored(res, 'ber', ber_encoder.encode, bt.obj, dict(defMode=defMode, maxChunkSize=chunk),
                                 T, v, 'BER', defMode, chunk, feats, case)
        if out is None:
            continue
        e, data, used = out
        if C.check_roundtrip(res, 'ber', ber_decoder.decode, data, bt, case, feats):
            res.see('roundtrip-ok')
    if len(res.samples) < 4:
        res.sample(C.sample_of(T, v, modes=modes))


def check_realbase(res, fixed, defMode):
    """A REAL type that asks for base 8 / base 16 encoding (Real.binEncBase): same number back, nothing left over."""
    from fractions import Fraction
    base, m, e, wrap = fixed
    case = ('c01-realbase', base, m, e, wrap, defMode)
    feats = {'type:real', 'real-base2', 'real-binEncBase:%d' % base, 'wrap:' + wrap}
    if not defMode:
        feats.add('indefinite')
    if wrap == 'explicit' and not defMode:
        return      # zone of the pinned stray end-of-octets finding (explicit tag over a primitive, indefinite mode)
    res.case(U.case_hash(case), True)
    res.see('realbase-cases')
    val, schema, pick = C.realbase_objects(base, m, e, wrap)
    try:
        data = ber_encoder.encode(val, defMode=defMode)
    except Exception as ex:
        c = H.classify_exception(ex)
        res.witness('ber:encode-raised:%s' % (c if not isinstance(c, tuple) else 'leak:' + c[1]), feats, case, ex)
        return
    try:
        d, rest = ber_decoder.decode(data, asn1Spec=schema)
        got = tuple(pick(d))
    except Exception as ex:
        c = H.classify_exception(ex)
        res.witness('ber:decode-raised:%s' % (c if not isinstance(c, tuple) else 'leak:' + c[1]), feats, case,
                    '%s on %s' % (ex, data.hex()[:200]))
        return
    if rest:
        res.witness('ber:remainder', feats, case, '%s left of %s' % (rest.hex()[:40], data.hex()[:200]))
    elif Fraction(got[0]) * Fraction(got[1]) ** got[2] != Fraction(m) * Fraction(2) ** e:
        res.witness('ber:value-differs:real', feats, case, '%r came back as %r via %s' % ((m, 2, e), got, data.hex()[:200]))
    else:
        res.see('realbase-roundtrip-ok')


def run_shard(shard, tier, seed):
    res = H.Result(ID)
    rng = C.rng_for(seed, ID, shard['shard'])
    # contents as long as the values at which a length field grows by an octet (C03's family), both length forms
    from . import c03
    for j, (T, v) in enumerate(c03.length_boundary_cases(tier)):
        if j % C.NSHARDS != shard['shard']:
            continue
        try:
            check_case(res, T, v, [(True, 0), (False, 0), (j % 2 == 0, 1000)])
            res.see('length-boundary-cases')
        except Exception:
            res.see('harness:error')
            if len(res.inconclusive) < 3:
                res.inconclusive.append('harness error: ' + H.fmt_exc())
    for i in range(shard['n']):
        if i % 8 == 0:
            try:
                check_realbase(res, C.realbase_case(rng), rng.random() < 0.5)
            except Exception:
                res.see('harness:error')
                if len(res.inconclusive) < 3:
                    res.inconclusive.append('harness error: ' + H.fmt_exc())
        T, v = C.gen_case(rng, tier, any_maker=R.ber_any_maker)
        try:
            check_case(res, T, v, modes_for(rng))
        except Exception:
            res.see('harness:error')
            if len(res.inconclusive) < 3:
                res.inconclusive.append('harness error: ' + H.fmt_exc())
    return res


def replay(case):
    if case[0] == 'enc':
        return C.replay_enc(ID, case)
    res = H.Result(ID)
    if case[0] == 'c01-realbase':
        check_realbase(res, tuple(case[1:5]), case[5])
        return res
    _, T, v, defMode, chunk = case
    check_case(res, T, v, [(defMode, chunk)])
    return res


def finish_coverage(cov, m, tier):
    cov['exhaustive'] = False
