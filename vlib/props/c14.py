"""C14 Constraints mean what set theory says and cannot be bypassed (DESIGN 4/C14)."""
import operator

from pyasn1.codec.ber import decoder as ber_decoder
from pyasn1.codec.ber import encoder as ber_encoder
from pyasn1.codec.der import encoder as der_encoder
from pyasn1.codec.cer import encoder as cer_encoder
from pyasn1.codec.native import encoder as native_encoder
from pyasn1.type import char, constraint, namedtype, tag, univ
from pyasn1 import error

from .. import universe as U
from .. import refx690 as R
from .. import refconstraint as RC
from .. import harness as H
from . import common as C

ID = 'C14'
LEVEL = 'exploration'
TECHNIQUE = ('runtime monitoring: differential oracle between the real constraint objects and an independent '
             'set-theoretic evaluator; post-condition monitor on every value-producing operation of constrained scalar '
             'types; accept/refuse oracle for encoders and for subtype recognition along derivation chains')
RULE = ('cases = (a) constraint expression trees up to depth 4 over single value / range / size / alphabet / WITH '
        'COMPONENTS / intersection / union / exclusion with candidate values at every boundary +-1; (b) constrained '
        'INTEGER / OCTET STRING / BIT STRING / IA5String objects under every arithmetic, bit, shift, slice, concat, '
        'repeat, clone, subtype and decode operation with boundary operands; (c) constructed values violating SIZE / '
        'WITH COMPONENTS fed to the encoders; (d) derivation chains of length <= 4 with and without extra tags; '
        'non-trivial = tree depth >= 2 or operation result inspected; distinct = sha1 of the case')
ASSUMPTIONS = ['an empty constraint is the library\'s documented "unconstrained"; only non-empty operand lists are generated',
               'operations documented to return another type (Integer / x -> Real) are checked against that type only']
KEY_FEATURES = ('arm', 'op', 'domain')


def plan(tier, seed):
    return C.plan_counts(tier, 16 * 5000, 16 * 60000)


# ------------------------------------------------------------------ (a) denotation

def gen_tree(rng, domain, depth):
    if depth <= 0 or rng.random() < 0.35:
        if domain == 'int':
            if rng.random() < 0.5:
                if rng.random() < 0.15:
                    # bounds at and beyond the machine word (Counter64-style ranges)
                    lo = rng.choice([0, -2 ** 63, -2 ** 64, 2 ** 62, -1])
                    return ('range', lo, rng.choice([2 ** 63 - 2, 2 ** 63 - 1, 2 ** 63, 2 ** 64 - 1, 2 ** 64, 2 ** 70]))
                lo = rng.choice([-10, -1, 0, 1, 5, 100, 2 ** 31])
                return ('range', lo, lo + rng.choice([0, 1, 5, 250]))
            return ('single', tuple(sorted(rng.sample([-2, -1, 0, 1, 2, 5, 6, 100, 255, 256], rng.randint(1, 4)))))
        if domain == 'str':
            r = rng.random()
            if r < 0.4:
                lo = rng.choice([0, 1, 2, 4])
                return ('size', lo, lo + rng.choice([0, 1, 3]))
            if r < 0.75:
                return ('alpha', tuple(rng.sample('abcxyz012', rng.randint(1, 5))))
            return ('single', tuple(rng.sample(['', 'a', 'ab', 'abc', 'zz', '012'], rng.randint(1, 3))))
        names = rng.sample(['p', 'q', 'r'], rng.randint(1, 3))
        return ('withc', tuple((n, rng.choice(['present', 'absent'])) for n in names))
    k = rng.choice(['and', 'or', 'excl'])
    return (k, tuple(gen_tree(rng, domain, depth - 1) for _ in range(rng.randint(1, 3))))


def tree_depth(Cx):
    if Cx[0] in ('and', 'or', 'excl'):
        return 1 + max(tree_depth(c) for c in Cx[1])
    return 0


FILLS = {'int1': lambda: univ.Integer(1), 'int0': lambda: univ.Integer(0), 'octs-empty': lambda: univ.OctetString(b''),
         'false': lambda: univ.Boolean(False), 'null': lambda: univ.Null(''), 'octs-x': lambda: univ.OctetString(b'x'),
         'bits000': lambda: univ.BitString('000')}


def materialise(domain, v):
    """Candidate as handed to the constraint: record candidates name their component values by token."""
    if domain == 'rec':
        return dict((k, FILLS[t]()) for k, t in v.items())
    return v


def candidates(rng, domain, Cx):
    if domain == 'int':
        out = set()
        for b in RC.boundaries(Cx) | {0}:
            out |= {b - 1, b, b + 1}
        return sorted(out)
    if domain == 'str':
        out = {'', 'a', 'ab', 'abc', 'abcd', 'zz', '012', 'q', 'abcabcab'}
        for b in RC.boundaries(Cx):
            for n in (b - 1, b, b + 1):
                if 0 <= n <= 12:
                    out.add('a' * n)
                    out.add(''.join(rng.choice('abcxyz012q') for _ in range(n)))
        return sorted(out)
    # present components carry every kind of value, falsy ones included: presence is about the key, not the value
    out = []
    for mask in range(8):
        for fill in sorted(FILLS):
            out.append(dict((n, fill) for i, n in enumerate('pqr') if mask >> i & 1))
            if not mask:
                break
    return out


def check_denotation(res, rng):
    domain = rng.choice(['int', 'int', 'str', 'str', 'rec'])
    Cx = gen_tree(rng, domain, rng.choice([0, 1, 2, 3, 4]))
    try:
        pc = RC.to_pyasn1(Cx)
    except Exception as ex:
        res.see('skipped:constraint-not-constructible:' + type(ex).__name__)
        return
    feats = {'arm:denotation', 'domain:' + domain}
    for v in candidates(rng, domain, Cx):
        case = ('c14-den', domain, Cx, v)
        res.case(U.case_hash(case), tree_depth(Cx) >= 2)
        res.see('denotation-evaluations')
        want = RC.admits(Cx, v)
        try:
            pc(materialise(domain, v))
            got = True
        except error.PyAsn1Error:
            # (the class actually raised is pyasn1.type.error.ValueConstraintError, a sibling of the documented
            # pyasn1.error.ValueConstraintError; both are library errors)
            got = False
        except Exception as ex:
            res.witness('denotation:foreign-exception:' + type(ex).__name__, feats, case, ex)
            continue
        if got != want:
            res.witness('denotation:%s' % ('accepts-outside' if got else 'rejects-inside'), feats | {'root:' + Cx[0]},
                        case, '%s on %r: library %s, set theory %s' % (RC.show(Cx), v, got, want))
        else:
            res.see('denotation-agree')
    res.see('tree-depth:%d' % tree_depth(Cx))
    if len(res.samples) < 3:
        res.sample({'arm': 'denotation', 'domain': domain, 'constraint': RC.show(Cx)})


def real_case(res, Cx, v):
    """A REAL type constrained by a numeric expression: building the value v must succeed exactly when v lies in the
    denotation (ranges and single values over numbers)."""
    case = ('c14-real', Cx, v)
    feats = {'arm:real', 'domain:real', 'root:' + Cx[0]}
    res.case(U.case_hash(case), True)
    res.see('real-evaluations')
    want = RC.admits(Cx, v)
    try:
        T = univ.Real().subtype(subtypeSpec=RC.to_pyasn1(Cx))
    except Exception as ex:
        res.see('skipped:constraint-not-constructible:' + type(ex).__name__)
        return
    try:
        T.clone(v)
        got = True
    except error.PyAsn1Error:
        got = False
    except Exception as ex:
        res.witness('real:constraint-evaluation-raised:' + type(ex).__name__, feats, case,
                    '%s on %r: %s' % (RC.show(Cx), v, ex))
        return
    if got != want:
        res.witness('real:%s' % ('accepts-outside' if got else 'rejects-inside'), feats, case,
                    '%s on %r: library %s, set theory %s' % (RC.show(Cx), v, got, want))
    else:
        res.see('real-agree')


def check_real(res, rng):
    Cx = gen_tree(rng, 'int', rng.choice([0, 0, 1, 2]))
    vals = set()
    for b in RC.boundaries(Cx) | {0}:
        vals |= {b - 1, b, b + 1, b + 0.5, b - 0.5}
    for v in sorted(vals)[:24]:
        real_case(res, Cx, v)


# ------------------------------------------------------------------ (b) no bypass through operations

INT_OPS = [
    ('add', lambda x, y: x + y), ('radd', lambda x, y: y + x), ('sub', lambda x, y: x - y), ('rsub', lambda x, y: y - x),
    ('mul', lambda x, y: x * y), ('rmul', lambda x, y: y * x), ('floordiv', lambda x, y: x // y),
    ('rfloordiv', lambda x, y: y // x), ('mod', lambda x, y: x % y), ('rmod', lambda x, y: y % x),
    ('pow', lambda x, y: x ** (abs(y) % 4)), ('rpow', lambda x, y: (abs(y) % 4) ** x if x >= 0 and x < 8 else None),
    ('lshift', lambda x, y: x << (abs(y) % 9)), ('rshift', lambda x, y: x >> (abs(y) % 9)),
    ('and', lambda x, y: x & y), ('rand', lambda x, y: y & x), ('or', lambda x, y: x | y), ('ror', lambda x, y: y | x),
    ('xor', lambda x, y: x ^ y), ('rxor', lambda x, y: y ^ x), ('neg', lambda x, y: -x), ('pos', lambda x, y: +x),
    ('abs', lambda x, y: abs(x)), ('invert', lambda x, y: ~x), ('divmod', lambda x, y: divmod(x, y)),
    ('round', lambda x, y: round(x, 1)), ('trunc', lambda x, y: __import__('math').trunc(x)),
    ('clone', lambda x, y: x.clone(y)), ('subtype', lambda x, y: x.subtype(y)),
]
STR_OPS = [
    ('add', lambda x, y: x + y), ('radd', lambda x, y: y + x), ('mul', lambda x, y: x * (len(y) % 4)),
    ('rmul', lambda x, y: (len(y) % 4) * x), ('slice', lambda x, y: x[1:]), ('slice2', lambda x, y: x[:len(y) % 3]),
    ('slice3', lambda x, y: x[::2]), ('clone', lambda x, y: x.clone(y)), ('subtype', lambda x, y: x.subtype(y)),
]
BIT_OPS = [
    ('add', lambda x, y: x + y), ('radd', lambda x, y: y + x), ('mul', lambda x, y: x * 2), ('rmul', lambda x, y: 3 * x),
    ('lshift', lambda x, y: x << len(y)), ('rshift', lambda x, y: x >> len(y)), ('slice', lambda x, y: x[1:]),
    ('slice2', lambda x, y: x[:2]), ('clone', lambda x, y: x.clone(y)), ('subtype', lambda x, y: x.subtype(y)),
]


def payload(obj):
    if isinstance(obj, univ.BitString):
        return (len(obj), int(obj.asInteger()))
    if isinstance(obj, char.AbstractCharacterString):
        return str(obj)
    if isinstance(obj, univ.OctetString):
        return obj.asOctets()
    return int(obj)


def check_ops(res, rng):
    kind = rng.choice(['int', 'int', 'ia5', 'octs', 'bits'])
    if kind == 'int':
        Cx = gen_tree(rng, 'int', rng.choice([0, 1, 2]))
        base, ops = univ.Integer(), INT_OPS
        operands = sorted(set(sum([[b - 1, b, b + 1] for b in RC.boundaries(Cx) | {0, 2}], [])))
        view = lambda p: p
    elif kind == 'ia5':
        Cx = gen_tree(rng, 'str', rng.choice([0, 1, 2]))
        base, ops = char.IA5String(), STR_OPS
        operands = ['', 'a', 'ab', 'abc', 'zz', '012', 'abcabc']
        view = lambda p: p
    elif kind == 'octs':
        lo = rng.choice([0, 1, 2])
        Cx = ('size', lo, lo + rng.choice([0, 1, 3]))
        base, ops = univ.OctetString(), STR_OPS
        operands = [b'', b'a', b'ab', b'abc', b'abcdef']
        view = lambda p: p
    else:
        lo = rng.choice([0, 1, 4, 8])
        Cx = ('size', lo, lo + rng.choice([0, 1, 4]))
        base, ops = univ.BitString(), BIT_OPS
        # (bit strings with leading and with trailing zero bits among them: the integer behind a BIT STRING cannot
        # carry leading zeros, the length has to)
        operands = ['', '1', '0001', '10', '0010', '1010', '0', '10101010', '1' * 13, '00000001', '1000']
        view = lambda p: p
    try:
        typ = base.subtype(subtypeSpec=RC.to_pyasn1(Cx))
    except Exception as ex:
        res.see('skipped:type-not-constructible')
        return
    feats0 = {'arm:ops', 'domain:' + kind}
    # starting values inside the constraint
    starts = []
    for v in operands:
        try:
            starts.append(typ.clone(v))
        except error.PyAsn1Error:
            # construction refused: must be outside the set
            pv = (len(v), int(v, 2) if v else 0) if kind == 'bits' else v
            if RC.admits(Cx, pv):
                res.witness('construction:rejects-inside', feats0, ('c14-ctor', kind, Cx, v), RC.show(Cx))
            continue
        pv = payload(starts[-1])
        if not RC.admits(Cx, pv):
            res.witness('construction:accepts-outside', feats0, ('c14-ctor', kind, Cx, v), '%s holds %r' % (RC.show(Cx), pv))
            starts.pop()
    for x in starts[:6]:
        for name, fn in ops:
            for y in operands[:7]:
                case = ('c14-op', kind, Cx, repr(payload(x)), name, repr(y))
                res.case(U.case_hash(case), True)
                try:
                    r = fn(x, y)
                except error.PyAsn1Error:
                    res.see('op-refused')
                    continue
                except (ZeroDivisionError, OverflowError, ValueError, TypeError, IndexError):
                    res.see('op-not-applicable')
                    continue
                except Exception as ex:
                    res.witness('op:foreign-exception:' + type(ex).__name__, feats0 | {'op:' + name}, case, ex)
                    continue
                res.see('op-results-inspected')
                if isinstance(r, type(typ)) and type(r) is type(typ) and r.subtypeSpec == typ.subtypeSpec:
                    try:
                        pv = payload(r)
                    except Exception:
                        continue
                    if not RC.admits(Cx, pv):
                        res.witness('op:result-violates-constraint', feats0 | {'op:' + name}, case,
                                    '%s: %s(%r, %r) -> %r' % (RC.show(Cx), name, payload(x), y, pv))
                    else:
                        res.see('op-result-inside')
    # decoding
    for v in operands:
        pv = (len(v), int(v, 2) if v else 0) if kind == 'bits' else v
        Tk = {'int': ('int',), 'ia5': ('char', 'IA5String'), 'octs': ('octs',), 'bits': ('bits',)}[kind]
        try:
            e = R.der(Tk, pv)
        except Exception:
            continue
        case = ('c14-dec', kind, Cx, repr(v))
        res.case(U.case_hash(case), True)
        try:
            d, rest = ber_decoder.decode(e, asn1Spec=typ)
        except error.PyAsn1Error:
            if RC.admits(Cx, pv):
                res.witness('decode:rejects-inside', feats0, case, RC.show(Cx))
            else:
                res.see('decode-refused-outside')
            continue
        except Exception as ex:
            res.witness('decode:foreign-exception:' + type(ex).__name__, feats0, case, ex)
            continue
        if not RC.admits(Cx, payload(d)):
            res.witness('decode:accepts-outside', feats0, case, '%s holds %r' % (RC.show(Cx), payload(d)))
        else:
            res.see('decode-inside')


# ------------------------------------------------------------------ (c) encoders refuse inconsistent constructed values

def _retag(v, proto):
    """The members of v in an object of the (tagged) type proto."""
    o = proto.clone()
    o.clear()
    for m in v:
        o.append(int(m))
    return o


def check_constructed(res, rng):
    lo = rng.choice([0, 1, 2])
    hi = lo + rng.choice([0, 1, 2])
    kind = rng.choice(['seqof', 'setof', 'seq'])
    feats = {'arm:constructed', 'domain:' + kind}
    if kind in ('seqof', 'setof'):
        cls = univ.SequenceOf if kind == 'seqof' else univ.SetOf
        typ = cls(componentType=univ.Integer()).subtype(subtypeSpec=constraint.ValueSizeConstraint(lo, hi))
        # where the constrained value sits when the encoder meets it: on its own, or as a mandatory / OPTIONAL member,
        # a list element, a CHOICE alternative of an enclosing value
        place = rng.choice(['top', 'top', 'member', 'optional-member', 'set-member', 'element', 'alternative'])
        feats = feats | {'place:' + place}
        ctx = lambda t: t.subtype(implicitTag=tag.Tag(tag.tagClassContext, tag.tagFormatSimple, 5))

        def wrap(v):
            if place == 'top':
                return v
            if place in ('member', 'optional-member', 'set-member'):
                nt = namedtype.OptionalNamedType if place == 'optional-member' else namedtype.NamedType
                rec = (univ.Set if place == 'set-member' else univ.Sequence)(componentType=namedtype.NamedTypes(
                    namedtype.NamedType('a', univ.Integer()), nt('x', ctx(typ))))
                rec['a'] = 1
                rec['x'] = _retag(v, rec.componentType['x'].asn1Object)
                return rec
            if place == 'element':
                lst = univ.SequenceOf(componentType=typ)
                lst.append(v)
                return lst
            ch = univ.Choice(componentType=namedtype.NamedTypes(namedtype.NamedType('x', typ), namedtype.NamedType('n', univ.Null())))
            ch['x'] = v
            return ch
        for n in range(0, hi + 3):
            case = ('c14-con', kind, lo, hi, n, place)
            res.case(U.case_hash(case), True)
            v = typ.clone()
            v.clear()
            for i in range(n):
                v.append(i)
            inside = lo <= n <= hi
            try:
                w = wrap(v)
            except error.PyAsn1Error:
                # the enclosing value may refuse the member on assignment already: that is a refusal too
                res.see('constructed-refused-on-assignment' if not inside else 'constructed-assignment-refused-valid')
                if inside:
                    res.witness('constructed:assignment-refuses-valid', feats, case, '%d members, SIZE(%d..%d)' % (n, lo, hi))
                continue
            for cname, enc in (('ber', ber_encoder.encode), ('der', der_encoder.encode), ('cer', cer_encoder.encode),
                               ('native', native_encoder.encode)):
                try:
                    enc(w)
                    ok = True
                except error.PyAsn1Error:
                    ok = False
                except Exception as ex:
                    res.witness('constructed:foreign-exception:' + type(ex).__name__, feats | {'codec:' + cname}, case, ex)
                    continue
                res.see('constructed-encodes')
                res.see('constructed-encodes:%s:%s' % (place, cname))
                if ok and not inside:
                    res.witness('constructed:encoder-accepts-violation', feats | {'codec:' + cname, 'members:%d' % min(n, 1)}, case,
                                '%s: %d members, SIZE(%d..%d), %s' % (cname, n, lo, hi, place))
                elif not ok and inside:
                    res.witness('constructed:encoder-refuses-valid', feats | {'codec:' + cname}, case,
                                '%s: %d members, SIZE(%d..%d), %s' % (cname, n, lo, hi, place))
                else:
                    res.see('constructed-agree')
    else:
        want = rng.choice(['present', 'absent'])
        typ = univ.Sequence(componentType=namedtype.NamedTypes(
            namedtype.NamedType('a', univ.Integer()), namedtype.OptionalNamedType('b', univ.OctetString()))).subtype(
            subtypeSpec=constraint.WithComponentsConstraint(
                ('b', constraint.ComponentPresentConstraint() if want == 'present' else constraint.ComponentAbsentConstraint())))
        for has_b in (False, True, b'', b'\x00'):
            case = ('c14-con', 'seq', want, has_b)
            res.case(U.case_hash(case), True)
            v = typ.clone()
            v['a'] = 1
            if has_b is not False:
                v['b'] = b'x' if has_b is True else has_b
            has_b = has_b is not False
            inside = (want == 'present') == has_b
            try:
                der_encoder.encode(v)
                ok = True
            except error.PyAsn1Error:
                ok = False
            res.see('constructed-encodes')
            if ok != inside:
                res.witness('constructed:%s' % ('encoder-accepts-violation' if ok else 'encoder-refuses-valid'), feats,
                            case, 'b %s, WITH COMPONENTS b %s' % (has_b, want))
            else:
                res.see('constructed-agree')


# ------------------------------------------------------------------ (d) derivation chains

def check_chain(res, rng):
    kind = rng.choice(['int', 'str'])
    base = univ.Integer() if kind == 'int' else char.IA5String()
    chain = [base]
    trees = []
    feats = {'arm:chain', 'domain:' + kind}
    for i in range(rng.randint(1, 4)):
        Cx = gen_tree(rng, kind, rng.choice([0, 0, 1]))
        kw = {'subtypeSpec': RC.to_pyasn1(Cx)}
        if rng.random() < 0.3:
            kw['implicitTag' if rng.random() < 0.5 else 'explicitTag'] = tag.Tag(tag.tagClassContext, tag.tagFormatSimple, i)
            feats = feats | {'retagged'}
        try:
            chain.append(chain[-1].subtype(**kw))
        except Exception as ex:
            res.see('skipped:chain-not-constructible')
            return
        trees.append((Cx, 'implicitTag' in kw or 'explicitTag' in kw))
    cands = candidates(rng, kind, ('and', tuple(t for t, _ in trees)))
    case0 = ('c14-chain', kind, tuple(trees))
    res.case(U.case_hash(case0), True)
    res.see('chains:len=%d' % len(trees))
    for v in cands:
        accepted = []
        for t in chain:
            try:
                t.clone(v)
                accepted.append(True)
            except error.PyAsn1Error:
                accepted.append(False)
        # a child admits a subset of its parent's values
        for i in range(1, len(accepted)):
            if accepted[i] and not accepted[i - 1]:
                res.witness('chain:child-admits-value-parent-rejects', feats, case0 + (v, i), '%r at level %d' % (v, i))
        # and exactly the intersection of all constraints so far
        for i in range(1, len(chain)):
            want = all(RC.admits(t, v) for t, _ in trees[:i])
            if accepted[i] != want:
                res.witness('chain:derived-type-denotation-differs', feats, case0 + (v, i),
                            '%r at level %d: library %s, set theory %s' % (v, i, accepted[i], want))
        res.see('chain-candidates')
    # subtype recognition and assignment (only meaningful where no tag was added)
    # every ancestor, not only the direct parent: T0 recognises T2 and T3 as well
    pairs = [(j, i) for i in range(1, len(chain)) for j in range(0, i) if not any(trees[k][1] for k in range(j, i))]
    for j, i in pairs:
        parent, child = chain[j], chain[i]
        res.see('subtype-relations-checked')
        if i - j > 1:
            res.see('subtype-relations-checked-across-%d-links' % (i - j))
        case = case0 + ('rel', j, i)
        try:
            ok = parent.isSuperTypeOf(child)
        except Exception as ex:
            res.witness('chain:isSuperTypeOf-raised:' + type(ex).__name__, feats, case, ex)
            continue
        if not ok:
            res.witness('chain:parent-does-not-recognise-child', feats, case, 'levels %d -> %d of %r' % (j, i, trees))
            continue
        # a value of the child can be assigned where the parent is expected
        val = None
        for v in cands:
            try:
                val = child.clone(v)
                break
            except error.PyAsn1Error:
                continue
        if val is None:
            continue
        try:
            rec = univ.Sequence(componentType=namedtype.NamedTypes(namedtype.NamedType('f', parent)))
            rec['f'] = val
            lst = univ.SequenceOf(componentType=parent)
            lst.append(val)
            res.see('child-value-assignable')
        except Exception as ex:
            res.witness('chain:child-value-not-assignable', feats, case, '%s: %s' % (type(ex).__name__, ex))


def run_shard(shard, tier, seed):
    res = H.Result(ID)
    rng = C.rng_for(seed, ID, shard['shard'])
    budget = C.Budget(tier)
    for i in range(shard['n']):
        if budget.expired(res):
            break
        try:
            r = i % 10
            if i % 50 == 49:
                check_real(res, rng)
            elif r < 4:
                check_denotation(res, rng)
            elif r < 6:
                check_ops(res, rng)
            elif r < 7:
                check_constructed(res, rng)
            else:
                check_chain(res, rng)
        except Exception:
            res.see('harness:error')
            if len(res.inconclusive) < 3:
                res.inconclusive.append('harness error: ' + H.fmt_exc())
    return res


def replay(case):
    res = H.Result(ID)
    import random
    if case[0] == 'c14-real':
        real_case(res, case[1], case[2])
    elif case[0] == 'c14-den':
        _, domain, Cx, v = case
        pc = RC.to_pyasn1(Cx)
        want = RC.admits(Cx, v)
        try:
            pc(materialise(domain, v))
            got = True
        except error.PyAsn1Error:
            got = False
        if got != want:
            res.witness('denotation:%s' % ('accepts-outside' if got else 'rejects-inside'),
                        {'arm:denotation', 'domain:' + domain, 'root:' + Cx[0]}, case, RC.show(Cx))
    else:
        # operation / chain / constructed cases are regenerated from seeds near the recorded one
        for s in range(300):
            rng = random.Random(s)
            {'c14-op': check_ops, 'c14-ctor': check_ops, 'c14-dec': check_ops, 'c14-con': check_constructed,
             'c14-chain': check_chain}[case[0]](res, rng)
            if res.witnesses:
                break
    return res
