"""C07 Decoding consumes exactly one encoding and preserves what follows (DESIGN 4/C07)."""
import io

from pyasn1.codec.ber import decoder as ber_decoder
from pyasn1.codec.ber import encoder as ber_encoder
from pyasn1.codec.cer import decoder as cer_decoder
from pyasn1.codec.cer import encoder as cer_encoder
from pyasn1.codec.der import decoder as der_decoder
from pyasn1.codec.der import encoder as der_encoder
from pyasn1 import error

from .. import universe as U
from .. import refx690 as R
from .. import build as B
from .. import harness as H
from . import common as C

ID = 'C07'
LEVEL = 'exploration'
TECHNIQUE = ('runtime monitoring: remainder oracle on one-shot decode(e + tail) and stream-position monitor '
             '(tell() after every yielded object) on back-to-back encodings read from five kinds of stream object')
RULE = ('cases = (T, v, encoding kind, tail kind) and streams of 1..5 encodings of values of one type; encodings come '
        'from every pyasn1 encoder/mode and from the reference BER variant writer; tails = empty, 00, 00 00, '
        '00 00 00 00, another encoding, garbage, ff..; non-trivial = non-empty tail or stream of >= 2 encodings; '
        'distinct = sha1 of the input bytes')
ASSUMPTIONS = ['universe legality rules', 'refx690 variants are valid BER (self-checked)',
               'inside the zone of the pinned stray-end-of-octets finding the encoder output is replaced by the '
               'reference rendering without the stray octets']
KEY_FEATURES = ('tail', 'enc', 'ends-in-eoo')

DEC = {'BER': ber_decoder, 'CER': cer_decoder, 'DER': der_decoder}


def plan(tier, seed):
    return C.plan_counts(tier, 16 * 2500, 16 * 40000)


def encodings(res, bt, rng):
    """-> list of (kind, decoder-module name, bytes) valid encodings of bt.v"""
    T, v = bt.T, bt.v
    out = []
    defMode = rng.random() < 0.5
    chunk = rng.choice([0, 0, 1, 3, 1000])
    for label, codec, enc, kw, dm, ck in (
            ('ber', 'BER', ber_encoder.encode, dict(defMode=defMode, maxChunkSize=chunk), defMode, chunk),
            ('cer', 'CER', cer_encoder.encode, {}, False, 1000), ('der', 'DER', der_encoder.encode, {}, True, 0)):
        case = C.enc_case(T, v, codec, defMode, chunk)
        o = C.encode_monitored(res, label, enc, bt.obj, kw, T, v, codec, dm, ck, set(bt.feats), case)
        if o is not None:
            out.append(('pyasn1-' + label, codec, o[1]))
    for _ in range(2):
        x, ch = R.ber_variant(T, v, rng)
        out.append(('ref-variant', 'BER', x))
    return out


def tails(rng, other):
    t = [('empty', b''), ('00', b'\x00'), ('0000', b'\x00\x00'), ('00000000', b'\x00' * 4), ('another', other),
         ('garbage', bytes(rng.getrandbits(8) for _ in range(rng.randint(1, 9)))), ('ff', b'\xff' * rng.randint(1, 5)),
         ('tag-only', bytes([rng.choice([0x30, 0x02, 0x04, 0xa0, 0x24])]))]
    out = rng.sample(t, 3)
    if rng.random() < 0.25:
        # a tail around and beyond the read-ahead buffer size (whatever hands the remainder over must hand over all
        # of it)
        n = rng.choice([8191, 8192, 8193, 16384, 16385, 30000])
        out.append(('long', bytes([rng.getrandbits(8)]) * 7 + bytes(rng.getrandbits(8) for _ in range(64)) * (n // 64) + b'\x01' * (n % 64)))
    return out


def check_oneshot(res, bt, kind, codec, e, tailkind, t):
    case = ('c07', bt.T, bt.v, codec, e.hex(), t.hex())
    feats = set(bt.feats) | {'tail:' + tailkind, 'enc:' + kind}
    if e.endswith(b'\x00\x00'):
        feats.add('ends-in-eoo')
    res.case(U.case_hash(codec, e, t), bool(t))
    res.see('oneshot:%s:tail=%s%s' % (kind, tailkind, ':ends-in-eoo' if 'ends-in-eoo' in feats else ''))
    out = C.decode_outcome(DEC[codec].decode, e + t, bt.schema, bt.T)
    if out[0] == 'raised':
        res.witness('oneshot:decode-raised:%s' % out[1], feats, case, out[2])
        return
    if out[0] == 'not-a-value':
        res.witness('oneshot:not-a-value', feats, case, out[1])
        return
    _, a, rest = out
    if rest != t:
        res.witness('oneshot:remainder-differs', feats, case, 'rest=%s want %s' % (rest.hex()[:60], t.hex()[:60]))
    elif U.canon(bt.T, a) != bt.cv:
        res.witness('oneshot:value-differs:' + C.diff_kind(bt.T, bt.v, a), feats, case, repr(a)[:300])
    else:
        res.see('oneshot-ok')
    if tailkind == 'long' or res.evaluations % 8 == 0:
        # the same call on other kinds of input object: whatever follows the encoding comes back whole from each
        import tempfile
        from pyasn1.type import univ as _univ
        for okind in ('bytesio', 'octet-string', 'file'):
            tmp = None
            try:
                if okind == 'bytesio':
                    sub = io.BytesIO(e + t)
                elif okind == 'octet-string':
                    sub = _univ.OctetString(e + t)
                else:
                    tmp = tempfile.NamedTemporaryFile(prefix='pyasn1-verif-c07-', delete=True)
                    tmp.write(e + t)
                    tmp.flush()
                    sub = open(tmp.name, 'rb')
                try:
                    d2, rest2 = DEC[codec].decode(sub, asn1Spec=bt.schema)
                except Exception as ex:
                    c = H.classify_exception(ex)
                    res.witness('oneshot:%s:decode-raised:%s' % (okind, c if not isinstance(c, tuple) else 'leak:' + c[1]),
                                feats | {'input:' + okind}, case, ex)
                    continue
                res.see('oneshot-input-kinds:' + okind)
                if rest2 != t:
                    res.witness('oneshot:%s:remainder-differs' % okind, feats | {'input:' + okind}, case,
                                'rest of %d octets, tail of %d' % (len(rest2), len(t)))
            finally:
                if tmp is not None:
                    sub.close()
                    tmp.close()


class PlainSeekable(object):
    """A seekable binary stream that is not an io.BytesIO (the decoder then probes for end of stream by reading)."""

    def __init__(self, data):
        self._b = io.BytesIO(data)

    def read(self, n=-1):
        return self._b.read(n)

    def seek(self, off, whence=0):
        return self._b.seek(off, whence)

    def tell(self):
        return self._b.tell()

    def seekable(self):
        return True

    def readable(self):
        return True


STREAM_KINDS = ('file', 'file-unbuffered', 'plain-seekable', 'raw-nonseekable')


def check_stream(res, T, schema, codec, items, kind='bytesio'):
    """items: list of (value, bytes).  One object per encoding on every kind of stream; the position after each
    object is observed on the seekable kinds (io.BytesIO, a real file buffered and unbuffered, a plain seekable
    class); the non-seekable kind sits behind pyasn1's caching wrapper, whose tell() is not a stream position."""
    data = b''.join(e for _, e in items)
    case = ('c07-stream', T, codec, [e.hex() for _, e in items], [v for v, _ in items], kind)
    feats = U.type_features(T) | {'stream-len:%d' % len(items), 'stream-kind:' + kind}
    res.case(U.case_hash(codec, data, kind), len(items) > 1)
    res.see('streams:n=%d' % len(items))
    res.see('stream-kind:' + kind)
    tmp = None
    positions = True
    if kind == 'bytesio':
        stream = io.BytesIO(data)
    elif kind in ('file', 'file-unbuffered'):
        import tempfile
        tmp = tempfile.NamedTemporaryFile(prefix='pyasn1-verif-c07-', delete=True)
        tmp.write(data)
        tmp.flush()
        stream = open(tmp.name, 'rb', **({'buffering': 0} if kind == 'file-unbuffered' else {}))
    elif kind == 'plain-seekable':
        stream = PlainSeekable(data)
    else:
        from .. import streams as S
        stream = S.RawSched(data)
        stream.gate.arrive(len(data))
        stream.gate.close()
        positions = False
    try:
        _check_stream(res, T, schema, codec, items, stream, positions, case, feats)
    finally:
        if tmp is not None:
            stream.close()
            tmp.close()


def _check_stream(res, T, schema, codec, items, stream, positions, case, feats):
    ends = []
    pos = 0
    for _, e in items:
        pos += len(e)
        ends.append(pos)
    n = 0
    try:
        for obj in DEC[codec].StreamingDecoder(stream, asn1Spec=schema):
            if isinstance(obj, error.SubstrateUnderrunError):
                res.witness('stream:underrun-on-complete-input', feats, case, 'after %d objects' % n)
                return
            if n >= len(items):
                res.witness('stream:extra-object', feats, case, repr(obj)[:200])
                return
            if positions:
                tell = stream.tell()
                res.see('positions-checked')
                if tell != ends[n]:
                    res.witness('stream:position-after-object', feats, case,
                                'object %d: tell=%d, encoding ends at %d' % (n, tell, ends[n]))
                    return
            try:
                a = B.absval(obj, T)
            except B.NotAValue as ex:
                res.witness('stream:not-a-value', feats, case, ex)
                return
            if U.canon(T, a) != U.canon(T, items[n][0]):
                res.witness('stream:value-differs', feats, case, 'object %d: %r' % (n, a))
                return
            n += 1
    except Exception as ex:
        c = H.classify_exception(ex)
        res.witness('stream:raised:%s' % (c if not isinstance(c, tuple) else 'leak:' + c[1]), feats, case, ex)
        return
    if n != len(items):
        res.witness('stream:object-count', feats, case, '%d objects for %d encodings' % (n, len(items)))
    else:
        res.see('stream-ok')


def run_shard(shard, tier, seed):
    res = H.Result(ID)
    rng = C.rng_for(seed, ID, shard['shard'])
    # contents as long as the values at which a length field grows by an octet (C03's family, below 2**24): a length read
    # short or long by a power of two moves the end of the encoding
    from . import c03
    for j, (T, v) in enumerate(c03.length_boundary_cases('quick')):
        if j % C.NSHARDS != shard['shard']:
            continue
        try:
            bt = C.try_build(res, T, v)
            if bt is None:
                continue
            encs = encodings(res, bt, rng)
            for kind, codec, e in encs[:3]:
                for tk, t in list(tails(rng, encs[0][2]))[:2]:
                    check_oneshot(res, bt, kind, codec, e, tk, t)
            if encs:
                check_stream(res, T, bt.schema, 'BER', [(v, encs[0][2]), (v, encs[-1][2])])
            res.see('length-boundary-cases')
        except Exception:
            res.see('harness:error')
            if len(res.inconclusive) < 3:
                res.inconclusive.append('harness error: ' + H.fmt_exc())
    for i in range(shard['n']):
        ber_any = rng.random() < 0.3
        T, v = C.gen_case(rng, tier, any_maker=R.ber_any_maker if ber_any else None)
        try:
            bt = C.try_build(res, T, v)
            if bt is None:
                continue
            encs = encodings(res, bt, rng)
            if ber_any and 'type:any' in bt.feats:
                # ANY values in arbitrary BER form make CER/DER output non-canonical inside: use the BER decoder
                encs = [(k, 'BER', e) for k, c, e in encs]
            if not encs:
                continue
            for kind, codec, e in encs:
                # ANY values in BER form make DER/CER encodings non-canonical inside: decode those with BER
                for tk, t in tails(rng, rng.choice(encs)[2]):
                    check_oneshot(res, bt, kind, codec, e, tk, t)
            # stream of n encodings of values of the same type
            o = C.opts_for(tier, rng)
            codec = 'BER' if (ber_any and 'type:any' in bt.feats) else rng.choice(['BER', 'BER', 'CER', 'DER'])
            items = []
            for j in range(rng.randint(1, 5)):
                vj = U.gen_value(rng, T, o, small=True) if j else v
                btj = C.try_build(res, T, vj) if j else bt
                if btj is None:
                    continue
                cand = [x for x in encodings(res, btj, rng) if x[1] == codec or (codec == 'BER')]
                if cand:
                    items.append((vj, rng.choice(cand)[2]))
            if items:
                check_stream(res, T, bt.schema, codec, items)
                if sum(len(e) for _, e in items) <= 8000:
                    # (beyond the read-ahead buffer the non-seekable kind is in the zone of C11's pinned wrapper finding)
                    check_stream(res, T, bt.schema, codec, items, rng.choice(STREAM_KINDS))
            if len(res.samples) < 4:
                res.sample(C.sample_of(T, v, stream=[e.hex()[:80] for _, e in items], codec=codec))
        except Exception:
            res.see('harness:error')
            if len(res.inconclusive) < 3:
                res.inconclusive.append('harness error: ' + H.fmt_exc())
    return res


def replay(case):
    res = H.Result(ID)
    if case[0] == 'c07':
        _, T, v, codec, eh, th = case
        bt = C.try_build(res, T, v)
        if bt is not None:
            check_oneshot(res, bt, 'replay', codec, bytes.fromhex(eh), 'replay', bytes.fromhex(th))
    elif case[0] == 'c07-stream':
        _, T, codec, hexes, values = case[:5]
        check_stream(res, T, B.schema(T), codec, [(v, bytes.fromhex(h)) for v, h in zip(values, hexes)],
                     case[5] if len(case) > 5 else 'bytesio')
    elif case[0] == 'enc':
        return C.replay_enc(ID, case)
    return res
