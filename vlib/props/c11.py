"""C11 Decoding result does not depend on the kind of input object; the seek-back wrapper behaves like a
seekable stream (DESIGN 4/C11)."""
import base64
import gzip
import zlib
import io
import os
import shutil
import tempfile

from pyasn1.codec.ber import decoder as ber_decoder
from pyasn1.codec.cer import decoder as cer_decoder
from pyasn1.codec.der import decoder as der_decoder
from pyasn1.codec import streaming
from pyasn1 import error
from pyasn1.type import univ

from .. import universe as U
from .. import refx690 as R
from .. import build as B
from .. import harness as H
from . import common as C

ID = 'C11'
LEVEL = 'exploration'
TECHNIQUE = ('runtime monitoring: (A) the same octets are decoded from eight kinds of substrate object and the outcomes '
             '(abstract value, remainder, exception class) compared; (B) random operation histories on the real '
             'CachingStreamWrapper are checked step by step against io.BytesIO as the executable model')
RULE = ('(A) cases = byte strings (valid encodings with single elements around 8191/8192/8193/16385/70000 octets, deep '
        'and wide definite and indefinite containers, ANY members; mutations of them; headers declaring lengths of 2^31..2^128 '
        'octets followed by 0..3 buffer sizes of filler) x kinds {bytes, BytesIO, '
        'OCTET STRING, ANY, buffered file, unbuffered file, gzip reader, non-seekable raw stream} x {one-shot, '
        'streaming}; (B) histories of up to 60 operations from {read(n), peek(n), seek back to >= mark (absolute and '
        'relative), set mark at current position, tell} with sizes straddling io.DEFAULT_BUFFER_SIZE; non-trivial = '
        'input longer than the buffer size or a history in which the cache was dropped; distinct = sha1 of the case')
ASSUMPTIONS = ['positions of the wrapper are compared as differences since the previous observation (it is allowed to '
               'renumber), and only backward seeks to positions at or after the mark are generated',
               'gzip / file kinds use real temporary files created and removed inside the run']
KEY_FEATURES = ('kind', 'mode', 'arm')

BUF = io.DEFAULT_BUFFER_SIZE
DEC = {'BER': ber_decoder, 'CER': cer_decoder, 'DER': der_decoder}


def plan(tier, seed):
    return C.plan_counts(tier, 16 * 500, 16 * 8000)


class BlockingRaw(io.RawIOBase):
    """Non-seekable blocking stream: hands out what is asked for, b'' at the end."""

    def __init__(self, data, piece=None):
        io.RawIOBase.__init__(self)
        self.data, self.pos, self.piece = data, 0, piece

    def readable(self):
        return True

    def seekable(self):
        return False

    def read(self, n=-1):
        if n is None or n < 0:
            n = len(self.data) - self.pos
        out = self.data[self.pos:self.pos + n]
        self.pos += len(out)
        return out


def spans_cache_drop(data):
    """Structural feature behind the pinned wrapper finding: does a definite-length constructed element start
    before, and end after, a point where the wrapper drops its cache (mark set more than BUF octets into the
    cache)?  Computed by walking the TLVs the way a decoder meets them (element starts are where the mark is
    set) and simulating the mark-and-drop rule.  The walk is lenient: damaged input is followed as far as headers
    can be read, children of a definite-length element are followed until its declared end is reached or passed."""
    n = len(data)
    state = {'base': 0, 'broken': False, 'budget': 200000}

    def header(pos):
        # -> (constructed, length or None for indefinite, content offset) or None
        if pos >= n:
            return None
        first = data[pos]
        pos += 1
        if first & 0x1f == 0x1f:
            while True:
                if pos >= n:
                    return None
                o = data[pos]
                pos += 1
                if not o & 0x80:
                    break
        if pos >= n:
            return None
        lo = data[pos]
        pos += 1
        if lo < 0x80:
            return bool(first & 0x20), lo, pos
        if lo == 0x80:
            return bool(first & 0x20), None, pos
        k = lo & 0x7f
        if k == 0x7f or pos + k > n:
            return None
        return bool(first & 0x20), int.from_bytes(data[pos:pos + k], 'big'), pos + k

    def walk(pos, open_definite, depth):
        """-> position after the element at pos, or None when the walk cannot go on."""
        state['budget'] -= 1
        if state['budget'] < 0 or depth > 200:
            return None
        if pos - state['base'] > BUF:
            state['base'] = pos
            if open_definite:
                state['broken'] = True
        h = header(pos)
        if h is None:
            return None
        cons, length, off = h
        if not cons:
            return off + (length or 0)
        if length is None:
            p = off
            while True:
                if data[p:p + 2] == b'\x00\x00':
                    return p + 2
                p = walk(p, open_definite, depth + 1)
                if p is None or p >= n:
                    return None
        end = off + length
        p = off
        while p < end:
            p = walk(p, True, depth + 1)
            if p is None:
                return None
        return p

    pos = 0
    while pos is not None and pos < n:
        pos = walk(pos, False, 0)
    return state['broken']


class Kinds(object):
    def __init__(self):
        self.dir = tempfile.mkdtemp(prefix='pyasn1-verif-c11-')
        self.n = 0
        self.open = []

    def make(self, kind, data):
        if kind == 'bytes':
            return data
        if kind == 'bytesio':
            return io.BytesIO(data)
        if kind == 'octetstring':
            return univ.OctetString(data)
        if kind == 'any':
            return univ.Any(data)
        if kind == 'raw':
            return BlockingRaw(data)
        self.n += 1
        path = os.path.join(self.dir, 'f%d' % self.n)
        if kind == 'gzip':
            with gzip.open(path, 'wb') as f:
                f.write(data)
            f = gzip.open(path, 'rb')
        else:
            with open(path, 'wb') as f:
                f.write(data)
            f = open(path, 'rb', buffering=0) if kind == 'file-unbuffered' else open(path, 'rb')
        self.open.append((f, path))
        return f

    def cleanup_files(self):
        for f, path in self.open:
            try:
                f.close()
            except Exception:
                pass
            try:
                os.unlink(path)
            except Exception:
                pass
        self.open = []

    def close(self):
        self.cleanup_files()
        shutil.rmtree(self.dir, ignore_errors=True)


KINDS = ['bytes', 'bytesio', 'octetstring', 'any', 'file', 'file-unbuffered', 'gzip', 'raw']


def outcome(dec, substrate, schema, T, mode, nmax):
    try:
        if mode == 'oneshot':
            d, rest = dec.decode(substrate, asn1Spec=schema) if schema is not None else dec.decode(substrate)
            return ('ok', render(d, T), bytes(rest))
        out = []
        sd = dec.StreamingDecoder(substrate, asn1Spec=schema) if schema is not None else dec.StreamingDecoder(substrate)
        for x in sd:
            if isinstance(x, error.SubstrateUnderrunError):
                out.append('underrun')
                break
            out.append(render(x, T))
            if len(out) > nmax:
                break
        return ('stream', tuple(out))
    except Exception as ex:
        return ('raised', type(ex).__name__)


def render(d, T):
    if T is None:
        try:
            from pyasn1.codec.der import encoder
            return ('der', encoder.encode(d))
        except Exception as ex:
            return ('unencodable', type(d).__name__)
    try:
        return ('abs', U.canon(T, B.absval(d, T)))
    except B.NotAValue as ex:
        return ('not-a-value', str(ex)[:50])


def big_case(rng):
    """(T, v) with elements around the buffer size."""
    n = rng.choice([BUF - 1, BUF, BUF + 1, 2 * BUF + 1, 70000, BUF - 5, 3 * BUF])
    shape = rng.choice(['octs', 'seq-big-member', 'seqof-many', 'bits', 'any-member', 'nested', 'utf8'])
    if shape == 'octs':
        return ('octs',), U.gen_bytes(rng, n)
    if shape == 'bits':
        return ('bits',), (8 * n + rng.randint(0, 7), rng.getrandbits(64))
    if shape == 'utf8':
        return ('char', 'UTF8String'), 'abé' * (n // 4)
    if shape == 'seq-big-member':
        T = ('seq', (('a', ('int',), 'req', None), ('b', ('octs',), 'req', None), ('c', ('bool',), 'opt', None)))
        return T, {'a': 5, 'b': U.gen_bytes(rng, n), 'c': True}
    if shape == 'seqof-many':
        T = ('seqof', ('octs',))
        k = rng.choice([3, 40, 400])
        return T, [U.gen_bytes(rng, max(1, n // k)) for _ in range(k)]
    if shape == 'any-member':
        T = ('seq', (('a', ('int',), 'req', None), ('b', ('any',), 'req', None), ('c', ('octs',), 'req', None)))
        return T, {'a': 1, 'b': R.der(('octs',), U.gen_bytes(rng, n)), 'c': b'tail'}
    T = ('seq', (('x', ('seqof', ('seq', (('p', ('octs',), 'req', None), ('q', ('int',), 'req', None)))), 'req', None),
                 ('y', ('octs',), 'req', None)))
    k = rng.choice([2, 30])
    return T, {'x': [{'p': U.gen_bytes(rng, n // k), 'q': i} for i in range(k)], 'y': U.gen_bytes(rng, 10)}


def arm_kinds(res, rng, tier, kinds_factory):
    big = rng.random() < 0.5
    if big:
        T, v = big_case(rng)
    else:
        T, v = C.gen_case(rng, tier, big_strings=rng.random() < 0.2)
    try:
        schema = B.schema(T)
    except Exception:
        return
    codec = rng.choice(['BER', 'BER', 'CER', 'DER'])
    try:
        if codec == 'BER':
            data = R.ber_variant(T, v, rng, p={'segment': 0.15, 'indef': 0.4})[0] if rng.random() < 0.7 else R.der(T, v)
        elif codec == 'CER':
            data = R.cer(T, v)
        else:
            data = R.der(T, v)
    except Exception:
        return
    origin = 'valid'
    valid_data = data
    r = rng.random()
    if r < 0.25:
        origin = 'mutated'
        data = C.mutate(rng, data)[1]
    elif r < 0.4:
        origin = 'concatenated'
        data = data + R.der(T, v) if codec != 'CER' else data + data
    if len(data) > 400000:
        return
    dec = DEC[codec]
    use_spec = rng.random() < 0.8
    feats0 = {'arm:kinds', 'codec:' + codec, 'origin:' + origin, 'size:' + ('>buffer' if len(data) > BUF else '<=buffer')}
    if spans_cache_drop(data) or spans_cache_drop(valid_data):
        feats0.add('definite-constructed-spans-a-cache-drop')
    for mode in ('oneshot', 'stream'):
        outs = {}
        for kind in KINDS:
            if kind in ('octetstring', 'any') and mode == 'stream' and len(data) > 100000:
                continue
            sub = kinds_factory.make(kind, data)
            outs[kind] = outcome(dec, sub, schema if use_spec else None, T if use_spec else None, mode, 50)
        kinds_factory.cleanup_files()
        ref = outs['bytesio']
        case = ('c11-kinds', T if use_spec else None, codec, data.hex() if len(data) < 3000 else None, mode,
                ('z', base64.b64encode(zlib.compress(data, 9)).decode('ascii')) if len(data) >= 3000 else None)
        res.case(U.case_hash(codec, data, mode, use_spec), len(data) > BUF)
        res.see('comparisons:%s:%s' % (mode, 'big' if len(data) > BUF else 'small'))
        res.see('outcome:' + ref[0])
        for kind, o in outs.items():
            res.see('kind-runs:' + kind)
            if o != ref:
                res.witness('kind-differs:%s-vs-bytesio:%s' % (kind, mode), feats0 | {'kind:' + kind, 'mode:' + mode}, case,
                            '%s: %s ; bytesio: %s' % (kind, repr(o)[:160], repr(ref)[:160]))
        else:
            pass
    if len(res.samples) < 3:
        res.sample({'arm': 'kinds', 'type': U.show_type(T)[:200], 'codec': codec, 'octets': len(data), 'origin': origin,
                    'kinds': KINDS})


def absurd_data(head, lenoctets, value, tail_n, fill):
    """<head> 8n <value in n octets> <tail_n filler octets>: a definite length no substrate can satisfy."""
    return head + bytes([0x80 | lenoctets]) + value.to_bytes(lenoctets, 'big') + bytes([fill]) * tail_n


def arm_absurd(res, rng, kinds_factory, fixed=None):
    """Invalid input whose declared length is far beyond what is there (and beyond what can be allocated or
    addressed): every kind of substrate must report it the same way, whatever follows the header."""
    if fixed is None:
        head = rng.choice([b'\x04', b'\x03', b'\x0c', b'\x30', b'\x24', b'\x31', b'\xa0', b'\x30\x80\x04', b'\x30\x82\x7f\xff\x04',
                           b'\x02', b'\x06', b'\x09', b'\x13'])
        lenoctets = rng.choice([4, 5, 6, 7, 8, 8, 9, 16])
        value = rng.choice([1 << (8 * lenoctets - 1 - rng.randint(0, 6)), (1 << (8 * lenoctets)) - 1,
                            rng.getrandbits(8 * lenoctets) | (1 << (8 * lenoctets - 8))])
        tail_n = rng.choice([0, 1, 100, BUF - 12, BUF - 1, BUF, BUF + 1, 3 * BUF + 3])
        fill = rng.choice([0, 0x30, 0xff, 0x04])
        fixed = (head.hex(), lenoctets, value, tail_n, fill)
    head, lenoctets, value, tail_n, fill = fixed
    data = absurd_data(bytes.fromhex(head), lenoctets, value, tail_n, fill)
    codec = 'BER'
    case = ('c11-absurd',) + tuple(fixed)
    feats0 = {'arm:absurd-length', 'codec:BER', 'origin:absurd-length', 'length-octets:%d' % lenoctets,
              'tail:' + ('>=buffer' if tail_n >= BUF else '<buffer')}
    for mode in ('oneshot', 'stream'):
        outs = {}
        for kind in KINDS:
            outs[kind] = outcome(DEC[codec], kinds_factory.make(kind, data), None, None, mode, 5)
        kinds_factory.cleanup_files()
        ref = outs['bytesio']
        res.case(U.case_hash(case, mode), tail_n >= BUF)
        res.see('comparisons:%s:absurd-length' % mode)
        res.see('absurd-outcome:%s' % (ref[1] if ref[0] == 'raised' else ref[0]))
        for kind, o in outs.items():
            res.see('kind-runs:' + kind)
            if o != ref:
                res.witness('kind-differs:%s-vs-bytesio:%s' % (kind, mode), feats0 | {'kind:' + kind, 'mode:' + mode}, case,
                            '%s: %s ; bytesio: %s' % (kind, repr(o)[:160], repr(ref)[:160]))


# ------------------------------------------------------------------ (B) the wrapper against io.BytesIO

def arm_wrapper(res, rng):
    total = rng.choice([100, BUF - 10, BUF + 10, 2 * BUF + 7, 5 * BUF])
    data = bytes(rng.getrandbits(8) for _ in range(256)) * (total // 256 + 1)
    data = data[:total]
    w = streaming.CachingStreamWrapper(BlockingRaw(data))
    m = io.BytesIO(data)
    mark_m = 0              # model mark (absolute position in the model)
    last_w, last_m = w.tell(), m.tell()
    hist = []
    dropped = 0
    feats = {'arm:wrapper'}
    case_seed = rng.getrandbits(40)
    import random
    r = random.Random(case_seed)
    sizes = [0, 1, 2, 7, 100, BUF - 1, BUF, BUF + 1, 2 * BUF + 3]
    nsteps = r.choice([10, 30, 60])
    case = ('c11-wrapper', total, case_seed, nsteps)
    for step in range(nsteps):
        op = r.choice(['read', 'read', 'read', 'peek', 'seek-abs', 'seek-rel', 'mark', 'tell'])
        try:
            if op == 'read':
                n = r.choice(sizes)
                a, b = w.read(n), m.read(n)
                hist.append(('read', n))
                if a != b:
                    raise AssertionError('read(%d) returned %d octets %r.. , model %d octets %r..' % (
                        n, len(a), a[:8], len(b), b[:8]))
            elif op == 'peek':
                n = r.choice(sizes)
                pos = m.tell()
                b = m.read(n)
                m.seek(pos)
                a = w.peek(n)
                hist.append(('peek', n))
                if a != b:
                    raise AssertionError('peek(%d) differs' % n)
            elif op == 'seek-abs':
                # back to a position obtained from tell() earlier, not before the mark
                back = r.randint(0, m.tell() - mark_m)
                target_w = w.tell() - back
                w.seek(target_w)
                m.seek(m.tell() - back)
                hist.append(('seek-abs', -back))
            elif op == 'seek-rel':
                back = r.randint(0, m.tell() - mark_m)
                w.seek(-back, os.SEEK_CUR)
                m.seek(-back, os.SEEK_CUR)
                hist.append(('seek-rel', -back))
            elif op == 'mark':
                before = w.tell()
                w.markedPosition = w.tell()
                mark_m = m.tell()
                hist.append(('mark',))
                if w.tell() != before:
                    dropped += 1
                    if 'cache-dropped' not in feats:
                        # a seekable stream's position never jumps: this is the (pinned) renumbering finding;
                        # it is reported once per history, then positions are re-based and the history goes on
                        feats.add('cache-dropped')
                        res.witness('wrapper:mark-deviates', feats | {'op:mark'}, case,
                                    'setting the mark moved tell() from %d to %d; history tail %r' % (
                                        before, w.tell(), hist[-6:]))
                    last_w = w.tell() - (before - last_w)
            else:
                hist.append(('tell',))
            # positions: differences since the previous observation must agree
            dw, dm = w.tell() - last_w, m.tell() - last_m
            if dw != dm:
                raise AssertionError('position moved by %d, model by %d' % (dw, dm))
            last_w, last_m = w.tell(), m.tell()
            res.see('wrapper-steps')
        except AssertionError as ex:
            res.case(U.case_hash(case), True)
            res.witness('wrapper:%s-deviates' % op, feats | {'op:' + op}, case, '%s; history tail %r' % (ex, hist[-6:]))
            return
        except Exception as ex:
            res.case(U.case_hash(case), True)
            res.witness('wrapper:%s-raised:%s' % (op, type(ex).__name__), feats | {'op:' + op}, case,
                        '%s; history tail %r' % (ex, hist[-6:]))
            return
    res.case(U.case_hash(case), dropped > 0)
    res.see('wrapper-histories')
    if dropped:
        res.see('wrapper-histories-with-cache-drop')
        res.see('cache-drops', dropped)
    if len(res.samples) < 4 and dropped:
        res.sample({'arm': 'wrapper', 'stream_octets': total, 'history': [repr(h) for h in hist[:20]], 'cache_drops': dropped})


def run_shard(shard, tier, seed):
    res = H.Result(ID)
    rng = C.rng_for(seed, ID, shard['shard'])
    budget = C.Budget(tier, quick=40.0)
    kf = Kinds()
    try:
        for i in range(shard['n']):
            if budget.expired(res):
                break
            try:
                arm_kinds(res, rng, tier, kf)
                if i % 2 == 0:
                    arm_absurd(res, rng, kf)
                for _ in range(6):
                    arm_wrapper(res, rng)
            except Exception:
                res.see('harness:error')
                if len(res.inconclusive) < 3:
                    res.inconclusive.append('harness error: ' + H.fmt_exc())
            finally:
                kf.cleanup_files()
    finally:
        kf.close()
    return res


def replay(case):
    res = H.Result(ID)
    import random
    if case[0] == 'c11-wrapper':
        _, total, case_seed, nsteps = case

        class FixedRng(random.Random):
            pass
        # re-create the history: the case seed fully determines it
        rng = random.Random(0)
        orig_choice = rng.choice
        state = {'n': 0}

        def fake_choice(seq):
            state['n'] += 1
            if state['n'] == 1:
                return total
            return orig_choice(seq)
        rng.choice = fake_choice
        rng.getrandbits = (lambda k, _g=rng.getrandbits: case_seed if k == 40 else _g(k))
        arm_wrapper(res, rng)
        return res
    if case[0] == 'c11-absurd':
        kf = Kinds()
        try:
            arm_absurd(res, None, kf, fixed=tuple(case[1:]))
        finally:
            kf.close()
        return res
    if case[0] == 'c11-kinds-gen':
        # ('c11-kinds-gen', n, mode): SEQUENCE { a INTEGER, b OCTET STRING (n octets), c BOOLEAN } in DER
        T = ('seq', (('a', ('int',), 'req', None), ('b', ('octs',), 'req', None), ('c', ('bool',), 'opt', None)))
        case = ('c11-kinds', None, 'DER', None, case[2], (T, {'a': 5, 'b': b'x' * case[1], 'c': True}, 'DER', 'valid'))
    _, Tspec, codec, hexdata, mode, regen = case
    kf = Kinds()
    try:
        if hexdata is not None:
            data = bytes.fromhex(hexdata)
        elif regen[0] == 'z':
            data = zlib.decompress(base64.b64decode(regen[1]))
        else:
            T, v, codec, origin = regen
            data = R.der(T, v)
            Tspec = T
        schema = B.schema(Tspec) if Tspec is not None else None
        outs = {}
        for kind in KINDS:
            outs[kind] = outcome(DEC[codec], kf.make(kind, data), schema, Tspec, mode, 50)
        feats0 = {'arm:kinds', 'codec:' + codec}
        if spans_cache_drop(data):
            feats0.add('definite-constructed-spans-a-cache-drop')
        for kind, o in outs.items():
            if o != outs['bytesio']:
                res.witness('kind-differs:%s-vs-bytesio:%s' % (kind, mode), feats0 | {'kind:' + kind, 'mode:' + mode}, case,
                            '%s: %s ; bytesio: %s' % (kind, repr(o)[:160], repr(outs['bytesio'])[:160]))
    finally:
        kf.close()
    return res


def conclusive(m, tier):
    if not m['obs'].get('wrapper-histories-with-cache-drop', 0) and not m['obs'].get('witness:wrapper:mark-deviates', 0):
        return ['no wrapper history dropped the cache: the interesting case was never reached']
