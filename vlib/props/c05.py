"""C05 Streaming decoder output is independent of the data arrival schedule (DESIGN 4/C05)."""
import io

from pyasn1.codec.ber import decoder as ber_decoder
from pyasn1.codec.ber import encoder as ber_encoder
from pyasn1.codec.cer import decoder as cer_decoder
from pyasn1.codec.cer import encoder as cer_encoder
from pyasn1.codec.der import decoder as der_decoder
from pyasn1.codec.der import encoder as der_encoder
from pyasn1 import error
from pyasn1.type import base as asn1base

from .. import universe as U
from .. import refx690 as R
from .. import build as B
from .. import harness as H
from .. import streams as S
from .. import monitors as M
from . import common as C

ID = 'C05'
LEVEL = 'exploration'
TECHNIQUE = ('runtime monitoring: offline checker over recorded stream histories (read/arrive/close events of stream '
             'doubles + items yielded by the real StreamingDecoder), exhaustive arrival partitions for short streams, '
             'suspension-site coverage via sys.monitoring PY_YIELD')
RULE = ('an execution = (stream of 1..4 encodings, substrate double, arrival schedule); schedules = partition of the '
        'octets into chunks (ALL 2^(n-1) partitions for streams up to the exhaustive bound, sampled with a bias '
        'towards structural cut points beyond) x short-read vs None policy x empty polls x end-of-stream with/after the '
        'last octet x seekable / non-seekable double; non-trivial = at least one underrun was reported; distinct = '
        'sha1 of (stream bytes, double, policy, schedule)')
ASSUMPTIONS = ['seekable double keeps the whole byte string in its buffer like the repository\'s NonBlockingStream test '
               'double (a growing BytesIO cannot tell "no data yet" from EOF)',
               'expected objects are the generator\'s own values (independent of pyasn1); for damaged streams the '
               'expectation is the outcome of decoding the complete bytes, two different library errors counting as '
               'the same ending (damaged streams are outside the property\'s quantifier)']
KEY_FEATURES = ('double:seekable', 'double:raw', 'policy:short', 'policy:none', 'policy:none0', 'spec', 'nospec', 'damaged')

DEC = {'BER': ber_decoder, 'CER': cer_decoder, 'DER': der_decoder}
MAX_STEPS_FACTOR = 8


def plan(tier, seed):
    return C.plan_counts(tier, 16 * 260, 16 * 6000)


def make_stream(res, rng, tier, T, bt0):
    """-> (codec, [(value, bytes)])"""
    o = C.opts_for(tier, rng)
    codec = rng.choice(['BER', 'BER', 'CER', 'DER'])
    items = []
    for j in range(rng.choice([1, 1, 2, 2, 3, 4])):
        vj = bt0.v if j == 0 else U.gen_value(rng, T, o, small=True)
        bt = bt0 if j == 0 else C.try_build(res, T, vj)
        if bt is None:
            continue
        r = rng.random()
        if codec == 'BER' and r < 0.5:
            x, ch = R.ber_variant(T, vj, rng)
            items.append((vj, x))
            continue
        if codec == 'BER':
            dm, ck = rng.random() < 0.5, rng.choice([0, 0, 2, 5])
            enc, kw = ber_encoder.encode, dict(defMode=dm, maxChunkSize=ck)
        elif codec == 'CER':
            dm, ck, enc, kw = False, 1000, cer_encoder.encode, {}
        else:
            dm, ck, enc, kw = True, 0, der_encoder.encode, {}
        out = C.encode_monitored(res, codec.lower(), enc, bt.obj, kw, T, vj, codec, dm, ck, set(bt.feats),
                                 C.enc_case(T, vj, codec, dm, ck))
        if out is not None:
            items.append((vj, out[1]))
    return codec, items


def reference_outcome(dec, data, spec):
    """Outcome of decoding the complete bytes from a plain BytesIO: (objects, terminal)."""
    objs = []
    it = iter(dec.StreamingDecoder(io.BytesIO(data), asn1Spec=spec) if spec is not None
              else dec.StreamingDecoder(io.BytesIO(data)))
    for _ in range(len(data) * MAX_STEPS_FACTOR + 64):
        try:
            x = next(it)
        except StopIteration:
            return objs, 'stop'
        except Exception as ex:
            c = H.classify_exception(ex)
            return objs, 'raised:%s' % type(ex).__name__
        if isinstance(x, error.SubstrateUnderrunError):
            return objs, 'underrun'
        if x is None:
            return objs, 'yielded-None'
        objs.append(x)
    return objs, 'no-progress'


def obj_key(x, T):
    """Comparable rendering of a decoded object: abstract value when a type is known, else DER bytes."""
    if not isinstance(x, asn1base.Asn1Item):
        # placeholders etc. are C08's business; here they only have to be the same under every schedule
        return ('non-object', repr(x)[:60])
    if T is not None:
        try:
            return ('abs', U.canon(T, B.absval(x, T)))
        except B.NotAValue as e:
            return ('not-a-value', str(e)[:60])
    try:
        return ('der', type(x).__name__, der_encoder.encode(x))
    except Exception as e:
        return ('unencodable', type(x).__name__, type(e).__name__)


def drive(dec, data, spec, double, policy, chunks, polls, eos_after, start_empty):
    """Run the streaming decoder against a schedule.  Returns a history dict for the offline checker."""
    cls = S.SeekableSched if double == 'seekable' else S.RawSched
    stream = cls(data, policy)
    g = stream.gate
    pending = list(chunks)
    if not start_empty and pending:
        g.arrive(pending.pop(0))
        if not pending and not eos_after:
            g.close()
    it = iter(dec.StreamingDecoder(stream, asn1Spec=spec) if spec is not None else dec.StreamingDecoder(stream))
    items = []      # ('obj', object) | ('underrun', was_unsatisfied) | ('other', repr)
    terminal = None
    idle = 0
    step = 0
    max_steps = len(data) * MAX_STEPS_FACTOR + 64 + 4 * len(chunks) + 2 * len(polls)
    polls = set(polls)
    underruns = 0
    while step < max_steps:
        step += 1
        g.unsatisfied = False
        try:
            x = next(it)
        except StopIteration:
            terminal = 'stop'
            break
        except Exception as ex:
            c = H.classify_exception(ex)
            terminal = 'raised:%s' % type(ex).__name__
            break
        if isinstance(x, error.SubstrateUnderrunError):
            items.append(('underrun', g.unsatisfied))
            underruns += 1
            if underruns in polls:
                g.log.append(('poll',))
                continue
            if pending:
                g.arrive(pending.pop(0))
                if not pending and not eos_after:
                    g.close()
                idle = 0
            elif not g.closed:
                g.close()
                idle = 0
            else:
                idle += 1
                if idle > 6:
                    terminal = 'underrun'
                    break
        elif x is None:
            # what the decoder hands out when it mistakes "no data yet" for something else
            items.append(('other', 'None'))
            terminal = 'yielded-None'
            break
        else:
            items.append(('obj', x))
            idle = 0
    else:
        terminal = 'no-progress'
    delivered = g.limit
    return {'items': items, 'terminal': terminal, 'steps': step, 'underruns': underruns, 'delivered': delivered,
            'closed': g.closed, 'log_tail': g.log[-6:], 'reads': g.reads, 'all_delivered': not pending}


_LIB_ERRORS = set(n for n, c in vars(error).items() if isinstance(c, type) and issubclass(c, error.PyAsn1Error))


def library_error(terminal):
    return terminal.startswith('raised:') and terminal.split(':', 1)[1] in _LIB_ERRORS


def check_history(res, h, exp_keys, exp_terminal, T, feats, case):
    """Offline checker over one recorded history."""
    objs = [x for kind, x in h['items'] if kind == 'obj']
    ok = True
    for kind, x in h['items']:
        if kind == 'underrun' and not x:
            res.witness('spurious-underrun', feats, case, 'underrun reported although every read since the previous '
                        'item was fully satisfied; log tail %r' % (h['log_tail'],))
            ok = False
            break
    if h['terminal'] == 'yielded-None' and exp_terminal != 'yielded-None':
        res.witness('yielded-None', feats, case, 'log tail %r' % (h['log_tail'],))
        return False
    got_keys = [obj_key(x, T) for x in objs]
    if got_keys != exp_keys[:len(got_keys)] or (h['terminal'] in ('stop',) and len(got_keys) != len(exp_keys)):
        if len(got_keys) < len(exp_keys) and got_keys == exp_keys[:len(got_keys)]:
            sym = 'objects-lost'
        elif len(got_keys) > len(exp_keys):
            sym = 'objects-extra'
        else:
            sym = 'objects-differ'
        first = ''
        for i, (g, e_) in enumerate(zip(got_keys, exp_keys)):
            if g != e_:
                first = '; object %d: got %s expected %s' % (i, repr(g)[:400], repr(e_)[:400])
                break
        res.witness(sym, feats, case, 'got %d objects (terminal %s), expected %d (terminal %s); log tail %r%s' % (
            len(got_keys), h['terminal'], len(exp_keys), exp_terminal, h['log_tail'], first))
        return False
    if h['terminal'] != exp_terminal and 'damaged' in feats and \
            library_error(h['terminal']) and library_error(exp_terminal):
        # the property quantifies over streams of valid encodings; for a damaged stream *which* library error
        # ends the iteration may depend on how much of the garbage had arrived (e.g. the raw fragment collector
        # of a constructed string takes "whatever is there" for an indefinite-length non-string fragment)
        res.see('damaged:different-library-errors-under-different-schedules')
        return ok
    if h['terminal'] != exp_terminal:
        res.witness('terminal-differs:%s-instead-of-%s' % (h['terminal'], exp_terminal), feats, case,
                    '%d objects; log tail %r' % (len(got_keys), h['log_tail']))
        return False
    return ok


def interesting_cuts(data):
    try:
        nodes = R.tlv(data)
    except R.RefError:
        return []
    return [k for k in range(1, len(data)) if R.classify_offset(nodes, k) != 'in-content']


def run_stream(res, rng, T, spec, codec, data, exp_keys, exp_terminal, feats0, tier, exhaustive_bound, damaged):
    dec = DEC[codec]
    n = len(data)
    if n == 0:
        return
    cuts = interesting_cuts(data)
    try:
        nodes = R.tlv(data)
    except R.RefError:
        nodes = None

    def one(double, policy, chunks, polls, eos_after, start_empty):
        case = ('c05', T if spec is not None else None, codec, data.hex(), double, policy, tuple(chunks),
                tuple(sorted(polls)), eos_after, start_empty, T)
        feats = set(feats0) | {'double:' + double, 'policy:' + policy}
        h = drive(dec, data, spec, double, policy, chunks, polls, eos_after, start_empty)
        res.case(U.case_hash(data, double, policy, tuple(chunks), tuple(sorted(polls)), eos_after, start_empty),
                 h['underruns'] > 0)
        res.see('runs:' + double + ':' + policy)
        res.see('underruns-observed', h['underruns'])
        res.maximum('max-steps-per-octet', round(h['steps'] / float(n), 2))
        if nodes is not None:
            pos = 0
            for c in chunks[:-1]:
                pos += c
                res.see('cut:' + R.classify_offset(nodes, pos))
        if check_history(res, h, exp_keys, exp_terminal, T if spec is not None else None, feats, case):
            res.see('history-ok')
        return h

    if n <= exhaustive_bound:
        res.see('streams-enumerated-exhaustively')
        res.see('partitions-enumerated', 1 << (n - 1))
        for chunks in S.partitions(n):
            for double in ('seekable', 'raw'):
                for policy in ('short', 'none', 'none0'):
                    one(double, policy, chunks, (), rng.random() < 0.5, rng.random() < 0.3)
    else:
        res.see('streams-sampled')
        for _ in range(10 if tier == 'quick' else 16):
            chunks = S.random_partition(rng, n, cuts)
            polls = set(rng.sample(range(1, 2 * len(chunks) + 3), rng.choice([0, 0, 1, 2])))
            one(rng.choice(['seekable', 'raw']), rng.choice(['short', 'none', 'none0']), chunks, polls,
                rng.random() < 0.5, rng.random() < 0.5)
        # single-octet arrival: every position is a cut
        one(rng.choice(['seekable', 'raw']), rng.choice(['short', 'none', 'none0']), [1] * n, (), True, True)


def run_shard(shard, tier, seed):
    res = H.Result(ID)
    rng = C.rng_for(seed, ID, shard['shard'])
    budget = C.Budget(tier)
    ys = M.YieldSites()
    ys.start()
    bound = 9 if tier == 'quick' else 13
    try:
        for i in range(shard['n']):
            if budget.expired(res):
                break
            small = rng.random() < 0.45
            if small:
                T, v = C.gen_case(rng, tier, depth=1, big_tag_numbers=False, big_strings=False)
            else:
                T, v = C.gen_case(rng, tier)
            try:
                bt = C.try_build(res, T, v)
                if bt is None:
                    continue
                codec, items = make_stream(res, rng, tier, T, bt)
                if small:
                    items = items[:1]
                if not items:
                    continue
                data = b''.join(e for _, e in items)
                if len(data) > 6000 or not data:
                    continue
                dec = DEC[codec]
                damaged = rng.random() < 0.12
                feats0 = set(bt.feats) | {'spec', 'codec:' + codec}
                if damaged:
                    kind, data = C.mutate(rng, data, ['set', 'tag', 'length', 'insert', 'zero-tail', 'truncate'])
                    feats0.add('damaged')
                    objs, term = reference_outcome(dec, data, bt.schema)
                    exp_keys = [obj_key(x, T) for x in objs]
                    if term == 'no-progress':
                        res.see('skipped:reference-run-made-no-progress')
                        continue
                else:
                    exp_keys = [('abs', U.canon(T, vj)) for vj, _ in items]
                    term = 'stop'
                run_stream(res, rng, T, bt.schema, codec, data, exp_keys, term, feats0, tier, bound, damaged)
                # schemaless arm for self-describing streams
                if not damaged and rng.random() < 0.3:
                    objs, term2 = reference_outcome(dec, data, None)
                    if term2 == 'stop' and len(objs) == len(items):
                        keys2 = [obj_key(x, None) for x in objs]
                        run_stream(res, rng, T, None, codec, data, keys2, 'stop',
                                   (set(bt.feats) | {'nospec', 'codec:' + codec}), tier, min(bound, 8), False)
                if len(res.samples) < 4:
                    res.sample({'type': U.show_type(T)[:300], 'codec': codec, 'stream_hex': data.hex()[:160],
                                'encodings': len(items), 'damaged': damaged,
                                'schedules': 'all %d partitions x 2 doubles x 2 policies' % (1 << max(0, len(data) - 1))
                                if 0 < len(data) <= bound else 'sampled'})
            except Exception:
                res.see('harness:error')
                if len(res.inconclusive) < 3:
                    res.inconclusive.append('harness error: ' + H.fmt_exc())
    finally:
        ys.stop()
    for site, n in ys.sites.items():
        res.see_in('suspension-sites-hit', site)
        res.see('suspensions-with-underrun', n)
    return res


def replay(case):
    if case[0] == 'enc':
        return C.replay_enc(ID, case)
    res = H.Result(ID)
    _, Tspec, codec, hexdata, double, policy, chunks, polls, eos_after, start_empty, T = case
    data = bytes.fromhex(hexdata)
    spec = B.schema(Tspec) if Tspec is not None else None
    dec = DEC[codec]
    objs, term = reference_outcome(dec, data, spec)
    exp_keys = [obj_key(x, Tspec) for x in objs]
    h = drive(dec, data, spec, double, policy, list(chunks), set(polls), eos_after, start_empty)
    feats = U.type_features(T) | {'double:' + double, 'policy:' + policy, 'spec' if spec is not None else 'nospec'}
    if term != 'stop':
        feats.add('damaged')        # the complete input does not end quietly: not a stream of valid encodings
    check_history(res, h, exp_keys, term, Tspec, feats, case)
    return res


def conclusive(m, tier):
    out = []
    if m['obs'].get('underruns-observed', 0) == 0:
        out.append('no underrun was ever observed: the schedule workload did not reach the deciding monitor')
    return out


def finish_coverage(cov, m, tier):
    static = M.static_yield_sites()
    hit = set(m['sets'].get('suspension-sites-hit', ()))
    cov['suspension_sites'] = {'static_yield_statements': len(static), 'suspended_with_underrun_in_flight': len(hit & static),
                               'never_suspended_with_underrun': sorted(static - hit)}
    cov['exhaustive'] = False
    cov['exhaustive_subspace'] = ('for %d streams every one of the 2^(n-1) arrival partitions was run on both doubles under '
                                  'both read policies (%d partitions in total)' % (
                                      m['obs'].get('streams-enumerated-exhaustively', 0), m['obs'].get('partitions-enumerated', 0)))
