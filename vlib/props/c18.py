"""C18 Open types (ANY DEFINED BY) resolve by governing value and round-trip (DESIGN 4/C18)."""
from pyasn1.codec.ber import decoder as ber_decoder
from pyasn1.codec.ber import encoder as ber_encoder
from pyasn1.codec.cer import decoder as cer_decoder
from pyasn1.codec.cer import encoder as cer_encoder
from pyasn1.codec.der import decoder as der_decoder
from pyasn1.codec.der import encoder as der_encoder
from pyasn1.type import namedtype, opentype, tag, univ
from pyasn1 import error

from .. import universe as U
from .. import refx690 as R
from .. import build as B
from .. import harness as H
from . import common as C

ID = 'C18'
LEVEL = 'exploration'
TECHNIQUE = ('runtime monitoring: encode a container holding a typed inner value in its ANY DEFINED BY field, decode with '
             'and without open-type resolution; oracles = inner abstract value and class under resolution, exact TLV '
             'octets (located by an independent TLV parse) without')
RULE = ('cases = (container kind SEQUENCE/SET, governing kind INTEGER/OID, ANY field shape {single, SEQUENCE OF, SET OF}, '
        'ANY tagging {untagged, implicit, explicit}, type map of 2..4 inner types from the universe incl. constructed '
        'ones, inner value, codec {BER definite, BER indefinite, CER, DER}, resolution {default map, override map, off, '
        'unmapped governing value}); non-trivial = constructed or tagged inner type; distinct = sha1 of the whole case')
ASSUMPTIONS = ['inner (type, value) pairs whose own encoding falls in the zone of a pinned encoder finding under the '
               'codec in question are not used', 'universe legality rules for inner types (no ANY inside)']
KEY_FEATURES = ('codec', 'anytag', 'shape', 'resolution', 'container')

CODECS = {
    'BER-def': (ber_encoder.encode, dict(defMode=True), ber_decoder.decode, 'BER', True),
    'BER-indef': (ber_encoder.encode, dict(defMode=False), ber_decoder.decode, 'BER', False),
    'CER': (cer_encoder.encode, {}, cer_decoder.decode, 'CER', False),
    'DER': (der_encoder.encode, {}, der_decoder.decode, 'DER', True),
}


def plan(tier, seed):
    return C.plan_counts(tier, 16 * 12000, 16 * 100000)


def any_type(anytag, num=1002):
    a = univ.Any()
    if anytag == 'implicit':
        a = a.subtype(implicitTag=tag.Tag(tag.tagClassPrivate, tag.tagFormatSimple, num))
    elif anytag == 'explicit':
        a = a.subtype(explicitTag=tag.Tag(tag.tagClassPrivate, tag.tagFormatConstructed, num))
    return a


DEFAULT_LAYOUT = ('first', 'mandatory', None, 'mandatory')
ORDERS = ('first', 'last', 'mid')
GOVDECLS = ('mandatory', 'default-omitted', 'default-unset', 'default-other')


def make_schema(container, govkind, shape, anytag, tmap, layout=DEFAULT_LAYOUT, gov_default=None):
    """tmap: list of (governing python value, inner T).
    layout = (order, govdecl, twin): where the governing field sits relative to the open-type field (before it, after
    it, after it with the OPTIONAL tail in front), how it is declared (mandatory, or DEFAULT with the value given in
    gov_default), and whether the container holds a second governing/open-type pair (gov2/blob2, same map)."""
    order, govdecl, twin = layout[:3]
    blobdecl = layout[3] if len(layout) > 3 else 'mandatory'
    gov = univ.Integer() if govkind == 'int' else univ.ObjectIdentifier()
    types = dict((g, B.schema(t)) for g, t in tmap)
    a = any_type(anytag)
    if shape == 'seqof':
        field = univ.SequenceOf(componentType=a)
    elif shape == 'setof':
        field = univ.SetOf(componentType=a)
    else:
        field = a
    cls = univ.Sequence if container == 'seq' else univ.Set
    govT = gov.subtype(implicitTag=tag.Tag(tag.tagClassPrivate, tag.tagFormatSimple, 1000))
    if govdecl == 'mandatory':
        g_nt = namedtype.NamedType('gov', govT)
    else:
        g_nt = namedtype.DefaultedNamedType('gov', govT.clone(gov_default))
    # the open-type field itself may be declared OPTIONAL (it is present in every generated value)
    b_nt = (namedtype.OptionalNamedType if blobdecl == 'optional' else namedtype.NamedType)(
        'blob', field, openType=opentype.OpenType('gov', types))
    t_nt = namedtype.OptionalNamedType('tail', univ.Boolean().subtype(
        implicitTag=tag.Tag(tag.tagClassPrivate, tag.tagFormatSimple, 1001)))
    nts = {'first': [g_nt, b_nt, t_nt], 'last': [b_nt, t_nt, g_nt], 'mid': [t_nt, b_nt, g_nt]}[order]
    if twin is not None:
        g2 = namedtype.NamedType('gov2', gov.subtype(implicitTag=tag.Tag(tag.tagClassPrivate, tag.tagFormatSimple, 1003)))
        b2 = namedtype.NamedType('blob2', any_type(anytag, 1004), openType=opentype.OpenType('gov2', types))
        nts = (nts + [g2, b2]) if twin == 'after' else ([b2, g2] + nts) if twin == 'before' else (nts[:1] + [g2, b2] + nts[1:])
    return cls(componentType=namedtype.NamedTypes(*nts))


def gov_value(govkind, i):
    return (i + 1) if govkind == 'int' else (1, 3, 6, i + 1)


def inner_ok(T, v, codec, defMode):
    f = U.type_features(T, v)
    if 'default-constructed' in f or 'default-choice' in f:
        return False
    try:
        want, used = R.like_pyasn1_used(T, v, codec, defMode, 0, C.EMULATE[codec])
    except R.EmuRaises:
        return False
    return not (used - {'real-nr3-nodot'})


def has_empty_constructed(T, v):
    try:
        top = R.parse_one(R.der(T, v), 0)
    except Exception:
        return True
    return any(n.cons and n.content_end == n.content_off for n in top.walk())


def blob_region(e, container, shape, anytag):
    """Locate the octets of the ANY field(s) in encoding e with the independent parser:
    -> list of byte strings (the complete inner TLVs)."""
    top = R.parse_one(e, 0)
    kids = [c for c in top.children if not (c.cls == 'P' and c.num in (1000, 1001, 1003, 1004))]
    if shape != 'single':
        if len(kids) != 1:
            raise R.RefError('container field not found')
        kids = kids[0].children
    out = []
    for k in kids:
        if anytag == 'untagged':
            out.append(e[k.start:k.end])
        else:
            if k.tag() != ('P', 1002):
                raise R.RefError('ANY tag not found')
            out.append(e[k.content_off:k.content_end])
    return out


def run_case(res, rng, tier):
    container = rng.choice(['seq', 'set'])
    govkind = rng.choice(['int', 'oid'])
    shape = rng.choice(['single', 'single', 'seqof', 'setof'])
    anytag = rng.choice(['untagged', 'implicit', 'explicit'])
    if container == 'set' and anytag == 'untagged':
        anytag = 'explicit'        # untagged ANY is not generated inside SET (universe rule)
    cname = rng.choice(sorted(CODECS))
    enc, ekw, dec, codec, defMode = CODECS[cname]
    o = C.opts_for(tier, rng, allow_any=False, depth=2, big_strings=False)
    tmap = []
    for i in range(rng.randint(2, 4)):
        T = U.gen_type(rng, o, depth=rng.choice([0, 0, 1, 2]))
        tmap.append((gov_value(govkind, i), T))
    which = rng.randrange(len(tmap))
    g, Tin = tmap[which]
    n_items = 1 if shape == 'single' else rng.choice([0, 1, 2, 3])
    inner_vals = []
    for _ in range(n_items):
        for _try in range(20):
            v = U.gen_value(rng, Tin, o, small=True)
            if inner_ok(Tin, v, codec, defMode):
                inner_vals.append(v)
                break
    if shape == 'single' and not inner_vals:
        res.see('skipped:inner-in-finding-zone')
        return
    resolution = rng.choice(['default-map', 'override-map', 'off', 'unmapped'])
    # layout of the container: half of the cases use the plain one (governing field first and mandatory)
    layout = DEFAULT_LAYOUT
    twin_case = None
    if rng.random() < 0.5:
        order = rng.choice(ORDERS)
        if anytag == 'untagged' and container == 'seq' and order != 'first':
            order = 'first'        # an untagged ANY directly followed by OPTIONAL/other fields is ambiguous
        govdecl = rng.choice(GOVDECLS)
        twin = None
        # a second open-type field only in a SEQUENCE: the library gives every ANY, tagged or not, a wildcard entry in
        # its tag map, so a SET with two of them is refused as ambiguous (universe rule: one ANY per SET)
        if container == 'seq' and anytag != 'untagged' and shape == 'single' and rng.random() < 0.5:
            twin = rng.choice(['after', 'before', 'between'])
            which2 = rng.randrange(len(tmap))
            for _try in range(20):
                v2 = U.gen_value(rng, tmap[which2][1], o, small=True)
                if inner_ok(tmap[which2][1], v2, codec, defMode):
                    twin_case = (which2, repr(v2))
                    break
            else:
                twin = None
        blobdecl = 'mandatory'
        if anytag != 'untagged' and rng.random() < 0.4:
            blobdecl = 'optional'       # (an untagged OPTIONAL ANY is ambiguous with whatever follows)
            if codec in ('CER', 'DER') and (not inner_vals or any(has_empty_constructed(Tin, x) for x in inner_vals)):
                # the pinned emptyable-optional finding: CER/DER leave out an OPTIONAL component - and whatever sits
                # below it - whose constructed encoding has no contents
                blobdecl = 'mandatory'
        layout = (order, govdecl, twin, blobdecl)
    case = ('c18', container, govkind, shape, anytag, tuple(tmap), which, tuple(map(repr, inner_vals)), cname, resolution,
            layout, twin_case)
    feats = U.type_features(Tin, inner_vals[0] if inner_vals else None) | {
        'codec:' + cname, 'anytag:' + anytag, 'shape:' + shape, 'resolution:' + resolution, 'container:' + container,
        'gov:' + govkind}
    check(res, case, feats, inner_vals)


def field_ok(res, feats, case, label, items, Tin, inner_vals, regions, shape, resolved):
    """One open-type field of the decoded container against its oracle; True when it agrees."""
    if len(items) != len(inner_vals):
        res.witness('element-count-differs', feats, case, '%s: %d vs %d' % (label, len(items), len(inner_vals)))
        return False
    if resolved:
        want_cls = type(B.schema(Tin))
        got = []
        for it in items:
            if not isinstance(it, want_cls) or isinstance(it, univ.Any) and want_cls is not univ.Any:
                res.witness('resolved-field-has-wrong-class', feats, case, '%s: %s instead of %s' % (label, type(it).__name__, want_cls.__name__))
                return False
            try:
                got.append(U.canon(Tin, B.absval(it, Tin)))
            except B.NotAValue as ex:
                res.witness('resolved-field-not-a-value', feats, case, '%s: %s' % (label, ex))
                return False
        want = [U.canon(Tin, v) for v in inner_vals]
        if (sorted(map(repr, got)) != sorted(map(repr, want))) if shape == 'setof' else (got != want):
            res.witness('resolved-value-differs', feats, case, '%s: %r vs %r' % (label, got, want))
            return False
        res.see('resolved-ok')
    else:
        got = []
        for it in items:
            if not isinstance(it, univ.Any):
                res.witness('unresolved-field-is-not-any', feats, case, '%s: %s' % (label, type(it).__name__))
                return False
            got.append(it.asOctets())
        if (sorted(got) != sorted(regions)) if shape == 'setof' else (got != regions):
            res.witness('unresolved-octets-differ', feats, case, '%s: field %r wire %r' % (label, [x.hex()[:80] for x in got], [x.hex()[:80] for x in regions]))
            return False
        res.see('unresolved-ok')
    return True


def check(res, case, feats, inner_vals):
    import ast
    _, container, govkind, shape, anytag, tmap, which, _reprs, cname, resolution = case[:10]
    layout = tuple(case[10]) if len(case) > 10 else DEFAULT_LAYOUT
    twin_case = case[11] if len(case) > 11 else None
    order, govdecl, twin = layout[:3]
    blobdecl = layout[3] if len(layout) > 3 else 'mandatory'
    enc, ekw, dec, codec, defMode = CODECS[cname]
    g, Tin = tmap[which]
    if twin is not None:
        which2, v2 = twin_case[0], ast.literal_eval(twin_case[1])
        g2, Tin2 = tmap[which2]
    # the DEFAULT of the governing field: the governing value itself (then the encoders leave the field out), or the
    # governing value of another entry of the map (then it is on the wire)
    gov_default = g if govdecl in ('default-omitted', 'default-unset') else tmap[(which + 1) % len(tmap)][0]
    res.case(U.case_hash(case), U.base_of(Tin)[0] not in U.SIMPLE or Tin[0] == 'tag')
    res.see('cases:%s:%s:%s:%s' % (cname, anytag, shape, resolution))
    res.see('layout:%s:%s:%s' % (order, govdecl, 'twin-' + twin if twin else 'single-pair'))
    res.see('open-type-field-declared:' + blobdecl)
    res.see('inner-kind:' + U.base_of(Tin)[0])
    schema = make_schema(container, govkind, shape, anytag, tmap, layout, gov_default)
    # ---- build and encode
    try:
        val = schema.clone()
        if govdecl != 'default-unset':
            val['gov'] = g
        inner_objs = [B.value(Tin, v) for v in inner_vals]
        if shape == 'single':
            val['blob'] = inner_objs[0]
        else:
            val['blob'].clear()
            for io in inner_objs:
                val['blob'].append(io)
        if twin is not None:
            val['gov2'] = g2
            val['blob2'] = B.value(Tin2, v2)
        if res.evaluations % 2:
            val['tail'] = True
    except Exception as ex:
        res.see('skipped:container-build-raised:' + type(ex).__name__)
        res.see_in('build-notes', ('%s: %s' % (type(ex).__name__, ex))[:200])
        return
    try:
        e = enc(val, **ekw)
    except Exception as ex:
        c = H.classify_exception(ex)
        res.witness('encode-raised:%s' % (c if not isinstance(c, tuple) else 'leak:' + c[1]), feats, case, ex)
        return
    # what the field must hold without resolution: the complete inner TLVs as they sit in the encoding
    try:
        regions = blob_region(e, container, shape, anytag)
        top = R.parse_one(e, 0)
        gov_on_wire = any(c.tag() == ('P', 1000) for c in top.children)
        regions2 = [e[c.content_off:c.content_end] for c in top.children if c.tag() == ('P', 1004)]
    except (R.RefError, IndexError, AttributeError) as ex:
        res.witness('encoding-not-parseable-by-reference', feats, case, '%s in %s' % (ex, e.hex()[:300]))
        return
    # a DEFAULT governing field equal to its default is not encoded (DER/CER must, BER does)
    if gov_on_wire != (govdecl in ('mandatory', 'default-other')):
        res.witness('governing-field-presence-on-the-wire', feats, case, '%s: %s' % (govdecl, e.hex()[:300]))
        return
    res.see('governing-on-wire' if gov_on_wire else 'governing-omitted-as-default')
    # each region must itself be an encoding of an inner value (SET OF: in any order)
    if len(regions) != len(inner_vals) or len(regions2) != (1 if twin else 0):
        res.witness('wrong-number-of-any-elements-on-the-wire', feats, case, e.hex()[:300])
        return
    read_back = []
    for reg in regions:
        try:
            rv, rest = R.read(Tin, reg, 'BER')
            if rest:
                raise R.RefError('trailing octets')
            read_back.append(U.canon(Tin, rv))
        except (R.RefError, IndexError) as ex:
            res.witness('wrapped-octets-are-not-the-inner-encoding', feats, case, '%s: %s in %s' % (ex, reg.hex()[:200], e.hex()[:300]))
            return
    want_vals = [U.canon(Tin, v) for v in inner_vals]
    if (sorted(map(repr, read_back)) != sorted(map(repr, want_vals))) if shape == 'setof' else (read_back != want_vals):
        res.witness('wrapped-octets-are-not-the-inner-encoding', feats, case, 'values %r in %s' % (read_back, e.hex()[:300]))
        return
    if twin:
        try:
            rv, rest = R.read(Tin2, regions2[0], 'BER')
            if rest or U.canon(Tin2, rv) != U.canon(Tin2, v2):
                raise R.RefError('value %r' % (rv,))
        except (R.RefError, IndexError) as ex:
            res.witness('wrapped-octets-are-not-the-inner-encoding', feats, case, 'second field: %s in %s' % (ex, e.hex()[:300]))
            return
    # ---- decode
    kw = {}
    if resolution == 'default-map':
        kw['decodeOpenTypes'] = True
    elif resolution == 'override-map':
        # the schema's own map points to a wrong type; the caller's map overrides it
        wrong = [(gg, tmap[(i + 1) % len(tmap)][1]) for i, (gg, t) in enumerate(tmap)]
        schema = make_schema(container, govkind, shape, anytag, wrong, layout, gov_default)
        kw['openTypes'] = dict((gg, B.schema(t)) for gg, t in tmap)
        if govkind == 'oid':
            kw['openTypes'] = dict((univ.ObjectIdentifier(gg), s) for gg, s in kw['openTypes'].items())
    elif resolution == 'unmapped':
        kw['decodeOpenTypes'] = True
        others = [(gg, t) for i, (gg, t) in enumerate(tmap) if i != which]
        schema = make_schema(container, govkind, shape, anytag, others, layout, gov_default)
    try:
        d, rest = dec(e, asn1Spec=schema, **kw)
    except Exception as ex:
        c = H.classify_exception(ex)
        res.witness('decode-raised:%s' % (c if not isinstance(c, tuple) else 'leak:' + c[1]), feats, case,
                    '%s on %s' % (ex, e.hex()[:300]))
        return
    if rest:
        res.witness('remainder', feats, case, rest.hex()[:60])
        return
    try:
        blob = d['blob']
        items = [blob] if shape == 'single' else [blob[i] for i in range(len(blob))]
        items2 = [d['blob2']] if twin else []
        gov_back = d['gov']
        gov_back = int(gov_back) if govkind == 'int' else tuple(gov_back)
    except Exception as ex:
        res.witness('field-unreadable', feats, case, ex)
        return
    if gov_back != g:
        res.witness('governing-value-differs', feats, case, '%r vs %r' % (gov_back, g))
        return
    resolved = resolution in ('default-map', 'override-map')
    if not field_ok(res, feats, case, 'blob', items, Tin, inner_vals, regions, shape, resolved):
        return
    if twin:
        resolved2 = resolved or (resolution == 'unmapped' and which2 != which)
        if not field_ok(res, feats, case, 'blob2', items2, Tin2, [v2], regions2, 'single', resolved2):
            return
    if len(res.samples) < 4:
        res.sample({'container': container, 'governing': govkind, 'shape': shape, 'anytag': anytag, 'codec': cname,
                    'resolution': resolution, 'layout': list(layout), 'inner_type': U.show_type(Tin)[:200],
                    'encoding': e.hex()[:160]})


def run_shard(shard, tier, seed):
    res = H.Result(ID)
    rng = C.rng_for(seed, ID, shard['shard'])
    budget = C.Budget(tier)
    for i in range(shard['n']):
        if budget.expired(res):
            break
        try:
            run_case(res, rng, tier)
        except Exception:
            res.see('harness:error')
            if len(res.inconclusive) < 3:
                res.inconclusive.append('harness error: ' + H.fmt_exc())
    return res


def replay(case):
    if case[0] == 'enc':
        return C.replay_enc(ID, case)
    res = H.Result(ID)
    import ast
    inner_vals = [ast.literal_eval(r) for r in case[7]]
    _, container, govkind, shape, anytag, tmap, which, _r, cname, resolution = case[:10]
    Tin = tmap[which][1]
    feats = U.type_features(Tin, inner_vals[0] if inner_vals else None) | {
        'codec:' + cname, 'anytag:' + anytag, 'shape:' + shape, 'resolution:' + resolution, 'container:' + container,
        'gov:' + govkind}
    check(res, case, feats, inner_vals)
    return res
