"""C13 Tags on the wire are exactly the type's tags (DESIGN 4/C13)."""
from pyasn1.codec.ber import decoder as ber_decoder
from pyasn1.codec.ber import encoder as ber_encoder
from pyasn1 import error
from pyasn1.type import tag as asn1tag
from pyasn1.type import univ

from .. import universe as U
from .. import refx690 as R
from .. import build as B
from .. import harness as H
from . import common as C

ID = 'C13'
LEVEL = 'exploration'
TECHNIQUE = ('runtime monitoring: identifier octets of the real encoder output parsed by an independent TLV parser and '
             'compared with the tag list derived from the type AST; accept/reject oracle for single-position tag '
             'perturbations of the decoding type; direct contracts on the tag algebra')
RULE = ('cases = base type x tag stack (depth 0..4 over classes {A,C,P} x numbers {0,1,30,31,127,128,16383,16384,2^32,'
        '2^64,..} x {IMPLICIT,EXPLICIT}) x context {top level, SEQUENCE member, SET member, CHOICE alternative} x '
        '{definite, indefinite}; every single-position perturbation (class -> other class, number +-1, number -> '
        'boundary neighbour) of the decoding type is tried; non-trivial = stack depth >= 1; distinct = sha1(T, ctx)')
ASSUMPTIONS = ['universe legality rules', 'perturbations that leave (class, number) unchanged or make the type illegal '
               '(tag clash with a sibling) are skipped']
KEY_FEATURES = ('ctx', 'depth')

CLASSES = 'ACP'
NUMBERS = [0, 1, 2, 30, 31, 32, 127, 128, 16383, 16384, 2 ** 32, 2 ** 64]
BASES = [('bool',), ('int',), ('enum', (('a', 0), ('b', 5))), ('bits',), ('octs',), ('null',), ('oid',), ('real',),
         ('char', 'UTF8String'), ('char', 'BMPString'), ('char', 'IA5String'), ('useful', 'UTCTime'),
         ('useful', 'GeneralizedTime'), ('useful', 'ObjectDescriptor'),
         ('seq', (('x', ('int',), 'req', None),)), ('set', (('x', ('int',), 'opt', None),)), ('seqof', ('int',)),
         ('setof', ('octs',)), ('choice', (('p', ('int',)), ('q', ('octs',)))), ('any',)]


def plan(tier, seed):
    return C.plan_counts(tier, 16 * 7500, 16 * 60000)


def gen_stack(rng, base):
    depth = rng.choice([0, 1, 1, 2, 2, 3, 4])
    T = base
    for _ in range(depth):
        c = rng.choice(CLASSES)
        n = rng.choice(NUMBERS) if rng.random() < 0.7 else rng.randint(0, 40)
        mode = rng.choice('IE')
        if U.is_untagged_open(T):
            mode = 'E'
        if U.base_of(T)[0] == 'any' and T[0] == 'tag':
            break           # ANY under at most one tag (universe rule)
        T = ('tag', mode, c, n, T)
    return T


def in_context(ctx, M):
    """Wrap member type M into a container type; -> (T, make_value(member_value), locate(children...))"""
    sib = lambda n: ('tag', 'I', 'P', 900 + n, ('int',))
    if ctx == 'top':
        return M, (lambda mv: mv)
    if ctx == 'seq':
        T = ('seq', (('pre', sib(1), 'opt', None), ('m', M, 'req', None), ('post', sib(2), 'req', None)))
        return T, (lambda mv: {'m': mv, 'post': 7})
    if ctx == 'set':
        T = ('set', (('pre', sib(1), 'req', None), ('m', M, 'req', None)))
        return T, (lambda mv: {'pre': 3, 'm': mv})
    if ctx == 'choice':
        T = ('choice', (('other', sib(1)), ('m', M)))
        return T, (lambda mv: ('m', mv))
    raise ValueError(ctx)


def perturbations(M):
    """All types obtained from member type M by changing class or number at exactly one tag level."""
    levels = []
    t = M
    while t[0] == 'tag':
        levels.append(t)
        t = t[4]
    out = []
    for i, lv in enumerate(levels):
        mode, c, n, _ = lv[1:]
        if i and levels[i - 1][1] == 'I':
            continue        # replaced by the IMPLICIT tag above it: not one of the type's tags on the wire
        alts = set()
        for c2 in CLASSES:
            if c2 != c:
                alts.add((c2, n))
        for n2 in (n + 1, n - 1, 30 if n == 31 else 31, 127 if n == 128 else 128):
            if n2 >= 0 and n2 != n:
                alts.add((c, n2))
        # every other number of the catalogue, and numbers that coincide with n in their low 5 / 7 / 8 / 14 / 32 bits
        # (whatever packs class and number into one word, or keys a table by an identifier octet, collides there)
        for n2 in list(NUMBERS) + [n ^ 32, n ^ 64, n ^ 128, n ^ 256, n + 2 ** 14, n + 2 ** 32, n % 32, n % 128]:
            if n2 >= 0 and n2 != n:
                alts.add((c, n2))
        for c2, n2 in sorted(alts):
            # rebuild the stack with level i replaced
            t2 = t
            for j in range(len(levels) - 1, -1, -1):
                l = levels[j]
                if j == i:
                    t2 = ('tag', l[1], c2, n2, t2)
                else:
                    t2 = ('tag', l[1], l[2], l[3], t2)
            out.append((i, (c2, n2), t2))
    return out


def find_member(ctx, top, stack0):
    """Locate the TLV of the member inside the container node."""
    if ctx == 'top':
        return top
    if ctx == 'choice':
        return top
    for c in top.children or ():
        if c.tag() == (stack0[0], stack0[1]):
            return c
    return None


def check_case(res, base, M, ctx, defMode, rng=None, chunk=0):
    T, mk = in_context(ctx, M)
    if not U.is_legal(T):
        res.see('skipped:illegal-context')
        return
    o = U.GenOpts(depth=1, big_strings=False)
    import random
    mv = U.gen_value(rng or random.Random(0), M, o, small=True)
    v = mk(mv)
    bt = C.try_build(res, T, v)
    if bt is None:
        return
    depth = 0
    t = M
    while t[0] == 'tag':
        depth += 1
        t = t[4]
    case = ('c13', base, M, ctx, defMode, mv, chunk)
    feats = set(bt.feats) | {'ctx:' + ctx, 'depth:%d' % depth}
    if chunk:
        feats.add('chunked')
        res.see('chunked-cases')
    if not defMode:
        feats.add('indefinite')
    res.case(U.case_hash(M, ctx, defMode), depth >= 1)
    res.see('stacks:depth=%d' % depth)
    res.see('ctx:' + ctx)
    res.see('base:' + base[0])
    out = C.encode_monitored(res, 'ber', ber_encoder.encode, bt.obj, dict(defMode=defMode, maxChunkSize=chunk), T, v,
                             'BER', defMode, chunk, feats, C.enc_case(T, v, 'BER', defMode, chunk))
    if out is None:
        return
    e, data, used = out
    # (a) identifier octets on the wire == the type's tags, outermost first
    stack, B_ = U.tag_stack(M, mv)
    if chunk and stack and B_[0] in U.STRINGISH:
        # a string longer than the chunk size goes out as a constructed encoding of fragments: "constructed contents"
        bv = mv
        tt = M
        while tt[0] in ('tag', 'choice'):
            if tt[0] == 'tag':
                tt = tt[4]
            else:
                tt, bv = dict(tt[1])[bv[0]], bv[1]
        if B_[0] == 'bits':
            split = bv[0] > chunk * 8
        elif B_[0] == 'octs':
            split = len(bv) > chunk
        else:
            kinds = U.CHAR_KINDS if B_[0] == 'char' else U.USEFUL_KINDS
            split = len(bv.encode(kinds[B_[1]][1])) > chunk
        if split:
            stack = stack[:-1] + [stack[-1][:2] + (True,)]
            res.see('chunked-cases-with-constructed-contents')
    try:
        top = R.parse_one(data, 0)
    except R.RefError as ex:
        res.witness('wire:unparseable', feats, case, '%s: %s' % (ex, data.hex()[:200]))
        return
    if B_[0] != 'any' and stack:
        node = find_member(ctx, top, stack[0])
        if node is None:
            res.witness('wire:member-not-found-by-outer-tag', feats, case, data.hex()[:200])
            return
        for i, (c, n, cons) in enumerate(stack):
            if node.tag() != (c, n) or node.cons != cons:
                res.witness('wire:identifier-differs', feats, case,
                            'level %d: wire %s%d %s, type %s%d %s in %s' % (
                                i, node.cls, node.num, 'C' if node.cons else 'P', c, n, 'C' if cons else 'P',
                                data.hex()[:200]))
                break
            if i + 1 < len(stack):
                if not node.children or len(node.children) != 1:
                    res.witness('wire:explicit-wrapper-not-single', feats, case, data.hex()[:200])
                    break
                node = node.children[0]
        else:
            res.see('wire-identifiers-ok')
    # (b) decoding with T accepts and round-trips
    if not C.check_roundtrip(res, 'ber', ber_decoder.decode, data, bt, case, feats):
        return
    res.see('accepted-by-own-type')
    # (c) every single-position perturbation must be rejected
    if U.base_of(M)[0] == 'any':
        return
    for lvl, (c2, n2), M2 in perturbations(M):
        T2, _ = in_context(ctx, M2)
        if not U.is_legal(T2):
            res.see('perturbation-skipped:illegal')
            continue
        try:
            s2 = B.schema(T2)
        except Exception:
            res.see('perturbation-skipped:unbuildable')
            continue
        pcase = ('c13p', base, M, ctx, defMode, mv, M2, chunk)
        try:
            r = ber_decoder.decode(data, asn1Spec=s2)
            res.witness('perturbed-type-accepted', feats | {'perturbed-level:%d' % lvl}, pcase,
                        'level %d -> %s%d accepted %s' % (lvl, c2, n2, data.hex()[:200]))
        except error.PyAsn1Error:
            res.see('perturbations-rejected')
        except Exception as ex:
            c = H.classify_exception(ex)
            res.witness('perturbed-type-leak:%s' % (c[1] if isinstance(c, tuple) else c), feats, pcase, ex)
    if len(res.samples) < 4:
        res.sample({'member_type': U.show_type(M)[:200], 'context': ctx, 'defMode': defMode, 'hex': data.hex()[:120]})


def check_algebra(res, rng):
    """Direct contracts on TagSet.tagImplicitly / tagExplicitly and on subtype()."""
    fmt = lambda t: (t.tagClass, t.tagFormat, t.tagId)
    cls = {'A': asn1tag.tagClassApplication, 'C': asn1tag.tagClassContext, 'P': asn1tag.tagClassPrivate}
    base = rng.choice([univ.Integer(), univ.OctetString(), univ.Sequence(), univ.SetOf(), univ.Null(), univ.Real()])
    ts = base.tagSet
    for _ in range(rng.randint(0, 3)):
        ts = ts.tagExplicitly(asn1tag.Tag(cls[rng.choice('ACP')], asn1tag.tagFormatSimple, rng.choice(NUMBERS)))
    before = [fmt(t) for t in ts.superTags]
    c, n = cls[rng.choice('ACP')], rng.choice(NUMBERS)
    f = rng.choice([asn1tag.tagFormatSimple, asn1tag.tagFormatConstructed])
    case = ('c13-algebra', before, (c, f, n))
    res.case(U.case_hash('alg', tuple(before), c, f, n), True)
    ti = [fmt(t) for t in ts.tagImplicitly(asn1tag.Tag(c, f, n)).superTags]
    if not (len(ti) == len(before) and ti[:-1] == before[:-1] and ti[-1] == (c, before[-1][1], n)):
        res.witness('algebra:tagImplicitly', {'algebra'}, case, '%r -> %r' % (before, ti))
    else:
        res.see('algebra-implicit-ok')
    te = [fmt(t) for t in ts.tagExplicitly(asn1tag.Tag(c, f, n)).superTags]
    if not (len(te) == len(before) + 1 and te[:-1] == before and te[-1] == (c, asn1tag.tagFormatConstructed, n)):
        res.witness('algebra:tagExplicitly', {'algebra'}, case, '%r -> %r' % (before, te))
    else:
        res.see('algebra-explicit-ok')
    # explicit tagging refuses the UNIVERSAL class
    for how in ('tagset', 'subtype'):
        try:
            if how == 'tagset':
                ts.tagExplicitly(asn1tag.Tag(asn1tag.tagClassUniversal, f, n))
            else:
                base.subtype(explicitTag=asn1tag.Tag(asn1tag.tagClassUniversal, f, n))
            res.witness('algebra:explicit-universal-accepted', {'algebra'}, case + (how,), how)
        except error.PyAsn1Error:
            res.see('algebra-universal-refused')


def run_shard(shard, tier, seed):
    res = H.Result(ID)
    rng = C.rng_for(seed, ID, shard['shard'])
    budget = C.Budget(tier)
    for i in range(shard['n']):
        if budget.expired(res):
            break
        base = rng.choice(BASES)
        M = gen_stack(rng, base)
        ctx = rng.choice(['top', 'top', 'seq', 'set', 'choice'])
        if U.base_of(M)[0] == 'any' and ctx in ('set', 'choice'):
            ctx = 'top'
        if U.base_of(M)[0] == 'any' and ctx == 'seq':
            ctx = 'top'
        try:
            chunk = rng.choice([0, 0, 1, 2, 3]) if U.base_of(M)[0] in U.STRINGISH else 0
            check_case(res, base, M, ctx, rng.random() < 0.6, rng, chunk)
            if i % 4 == 0:
                check_algebra(res, rng)
        except Exception:
            res.see('harness:error')
            if len(res.inconclusive) < 3:
                res.inconclusive.append('harness error: ' + H.fmt_exc())
    return res


class _FixedValue(object):
    def __init__(self, mv):
        self.mv = mv


def replay(case):
    if case[0] == 'enc':
        return C.replay_enc(ID, case)
    res = H.Result(ID)
    if case[0] in ('c13', 'c13p'):
        base, M, ctx, defMode, mv = case[1:6]
        # regenerate with the recorded member value
        orig = U.gen_value
        try:
            U.gen_value = lambda rng, T, o, small=False, any_maker=None: mv
            chunk = case[-1] if isinstance(case[-1], int) and not isinstance(case[-1], bool) and len(case) > (6 if case[0] == 'c13' else 7) else 0
            check_case(res, base, M, ctx, defMode, chunk=chunk)
        finally:
            U.gen_value = orig
    elif case[0] == 'c13-algebra':
        import random
        for s in range(200):
            check_algebra(res, random.Random(s))
    return res
