"""C16 Self-describing encodings decode faithfully without a schema (DESIGN 4/C16)."""
from pyasn1.codec.ber import decoder as ber_decoder
from pyasn1.codec.cer import decoder as cer_decoder
from pyasn1.codec.der import decoder as der_decoder
from pyasn1.codec.der import encoder as der_encoder
from pyasn1.type import base as asn1base
from pyasn1.type import univ

from .. import universe as U
from .. import refx690 as R
from .. import build as B
from .. import harness as H
from . import common as C

ID = 'C16'
LEVEL = 'exploration'
TECHNIQUE = ('runtime monitoring: schema-less decode of reference encodings; oracles = result is a value object, DER '
             're-encoding is byte-identical, scalar leaves in traversal order equal the leaves of an independent TLV parse')
RULE = ('cases = (T, v) from the sub-universe without IMPLICIT tags, without ANY and without SET OF of differently '
        'tagged members (incl. empty / singleton / homogeneous containers ambiguous between SEQUENCE and SEQUENCE OF); '
        'encodings = reference DER, reference CER, reference BER variant; non-trivial = constructed or tagged; '
        'distinct = sha1 of the encoding')
ASSUMPTIONS = ['inputs come from the independent reference writers; leaves are compared as (universal tag number, '
               'contents) with constructed strings reassembled']
KEY_FEATURES = ('codec',)


def plan(tier, seed):
    return C.plan_counts(tier, 16 * 14000, 16 * 60000)


def legal_c16(T):
    """No SET OF whose members can carry differing tags (untagged CHOICE elements)."""
    k = T[0]
    if k == 'tag':
        return legal_c16(T[4])
    if k == 'setof':
        # members must carry one and the same tag stack: no CHOICE with several alternatives as the element
        # type, however it is tagged
        b = U.base_of(T[1])
        while b[0] == 'choice':
            if len(b[1]) > 1:
                return False
            b = U.base_of(b[1][0][1])
        return len(U.outer_tags(T[1])) == 1 and legal_c16(T[1])
    if k == 'seqof':
        return legal_c16(T[1])
    if k in ('seq', 'set'):
        return all(legal_c16(f[1]) for f in T[1])
    if k == 'choice':
        return all(legal_c16(a) for _, a in T[1])
    return True


STRING_NUMS = R.STRING_TAGS


def node_leaves(n, data, out):
    if n.cls != 'U':
        # explicit tag: descend
        if not n.cons:
            out.append(('opaque', n.cls, n.num, n.content(data)))
            return
        for c in n.children:
            node_leaves(c, data, out)
        return
    if n.num in STRING_NUMS:
        if n.num == 3:
            parts = R.Reader('BER').collect(n, data, 3) if n.cons else [n.content(data)]
            nbits, x = 0, 0
            for p in parts:
                pad = p[0]
                bl = (len(p) - 1) * 8 - pad
                x = (x << bl) | (int.from_bytes(p[1:], 'big') >> pad)
                nbits += bl
            out.append((3, (nbits, x)))
        else:
            raw = b''.join(R.Reader('BER').collect(n, data, 4)) if n.cons else n.content(data)
            out.append((n.num, raw))
        return
    if n.cons:
        for c in n.children:
            node_leaves(c, data, out)
        return
    c = n.content(data)
    if n.num == 1:
        out.append((1, c != b'\x00'))
    elif n.num in (2, 10):
        out.append((n.num, int.from_bytes(c, 'big', signed=True)))
    elif n.num == 5:
        out.append((5, None))
    elif n.num == 6:
        out.append((6, R.dec_oid(c)))
    elif n.num == 9:
        out.append((9, R.dec_real(c)))
    else:
        out.append((n.num, c))


def tlv_leaves(data):
    out = []
    node_leaves(R.parse_one(data, 0), data, out)
    return out


def obj_leaves(obj, out):
    if isinstance(obj, (univ.SequenceOfAndSetOfBase,)):
        for i in range(len(obj)):
            obj_leaves(obj.getComponentByPosition(i, instantiate=False), out)
        return
    if isinstance(obj, univ.Choice):
        obj_leaves(obj.getComponent(), out)
        return
    if isinstance(obj, univ.SequenceAndSetBase):
        for i in range(len(obj)):
            c = obj.getComponentByPosition(i, default=None, instantiate=False)
            if c is not None:
                obj_leaves(c, out)
        return
    num = obj.tagSet[0].tagId    # innermost tag (the base tag is not recovered without a schema)
    if isinstance(obj, univ.Boolean):
        out.append((1, bool(int(obj))))
    elif isinstance(obj, univ.Integer):
        out.append((num, int(obj)))
    elif isinstance(obj, univ.BitString):
        out.append((3, (len(obj), int(obj.asInteger()))))
    elif isinstance(obj, univ.Null):
        out.append((5, None))
    elif isinstance(obj, univ.OctetString):
        # character types keep their own universal number as the first (innermost) tag
        out.append((obj.tagSet[0].tagId, obj.asOctets()))
    elif isinstance(obj, univ.ObjectIdentifier):
        out.append((6, tuple(int(a) for a in obj)))
    elif isinstance(obj, univ.Real):
        if obj.isPlusInf:
            out.append((9, 'inf'))
        elif obj.isMinusInf:
            out.append((9, '-inf'))
        else:
            m = obj[0]
            if isinstance(m, float) and m == int(m):
                m = int(m)
            out.append((9, U.real_norm(('r', m, obj[1], obj[2])) if m else 0))
    else:
        out.append(('unknown', type(obj).__name__))


def norm_leaf(l):
    if l[0] == 9 and isinstance(l[1], tuple):
        return (9, U.real_norm(l[1]))
    return l


def leaves_equal(a, b):
    if len(a) != len(b):
        return False
    for x, y in zip(a, b):
        x, y = norm_leaf(x), norm_leaf(y)
        if x == y:
            continue
        if x[0] == 9 and y[0] == 9 and U.real_equal(x[1], y[1]):
            continue
        return False
    return True


def check_case(res, T, v, rng, variant=None):
    der = R.der(T, v)
    encs = [('DER', der_decoder, der), ('CER', cer_decoder, R.cer(T, v))]
    if variant is not None:
        encs.append(('BER', ber_decoder, variant))
    elif rng is not None:
        encs.append(('BER', ber_decoder, R.ber_variant(T, v, rng)[0]))
    feats0 = U.type_features(T, v)
    orig_leaves = sorted(map(repr, map(norm_leaf, tlv_leaves(der))))
    for codec, dec, e in encs:
        case = ('c16', T, v, codec, e.hex())
        feats = set(feats0) | {'codec:' + codec}
        res.case(U.case_hash(codec, e), U.base_of(T)[0] not in U.SIMPLE or T[0] == 'tag')
        res.see('decodes:' + codec)
        try:
            r = dec.decode(e)
        except Exception as ex:
            c = H.classify_exception(ex)
            res.witness('%s:decode-raised:%s' % (codec.lower(), c if not isinstance(c, tuple) else 'leak:' + c[1]),
                        feats, case, ex)
            continue
        d, rest = r
        if d is None or not isinstance(d, asn1base.Asn1Item):
            res.witness('%s:returned-non-object' % codec.lower(), feats, case, repr(d)[:100])
            continue
        try:
            isval = d.isValue
        except Exception as ex:
            isval = False
        if not isval:
            res.witness('%s:returned-placeholder' % codec.lower(), feats, case, repr(d)[:200])
            continue
        if rest:
            res.witness('%s:remainder' % codec.lower(), feats, case, rest.hex()[:60])
            continue
        try:
            got = []
            obj_leaves(d, got)
        except Exception as ex:
            res.witness('%s:leaves-unreadable' % codec.lower(), feats, case, '%s: %s' % (type(ex).__name__, ex))
            continue
        want = tlv_leaves(e)
        if not leaves_equal(got, want):
            res.witness('%s:leaves-differ' % codec.lower(), feats, case, 'got %r want %r' % (got[:8], want[:8]))
            continue
        if sorted(map(repr, map(norm_leaf, got))) != orig_leaves and codec != 'DER':
            # DEFAULT components may legitimately be present in BER where DER omits them: compare as multiset
            # only when no DEFAULT is involved
            if not any(f.endswith('-has-def') for f in feats0):
                res.witness('%s:leaf-multiset-differs-from-original' % codec.lower(), feats, case,
                            'got %r' % (got[:8],))
                continue
        res.see('leaves-ok:' + codec)
        if codec == 'DER':
            try:
                re_ = der_encoder.encode(d)
            except Exception as ex:
                c = H.classify_exception(ex)
                res.witness('der:re-encode-raised:%s' % (c if not isinstance(c, tuple) else 'leak:' + c[1]), feats, case, ex)
                continue
            if re_ != e:
                want2, used = R.like_pyasn1_used(T, v, 'DER', emulate={'real-nr3-nodot', 'time-fraction-zeros'})
                if used and re_ == want2:
                    for u in used:
                        res.witness('der:' + u, feats | set('emu:' + x for x in used), case,
                                    'got %s want %s' % (re_.hex()[:300], e.hex()[:300]))
                else:
                    res.witness('der:re-encoding-differs', feats, case,
                                'got %s want %s' % (re_.hex()[:300], e.hex()[:300]))
            else:
                res.see('der-reencode-identical')
    shape = 'simple'
    b = U.base_of(T)
    if b[0] in U.CONSTRUCTED:
        n = len(v) if not isinstance(v, dict) else len(v)
        shape = {0: 'empty', 1: 'singleton'}.get(n, 'several')
    res.see('shape:%s:%s' % (b[0], shape))
    if len(res.samples) < 4:
        res.sample(C.sample_of(T, v, der_hex=der.hex()[:160]))


def run_shard(shard, tier, seed):
    res = H.Result(ID)
    rng = C.rng_for(seed, ID, shard['shard'])
    budget = C.Budget(tier)
    for i in range(shard['n']):
        if budget.expired(res):
            break
        T, v = C.gen_case(rng, tier, allow_any=False, allow_implicit=False)
        if not legal_c16(T):
            res.see('skipped:heterogeneous-setof')
            continue
        try:
            check_case(res, T, v, rng)
        except Exception:
            res.see('harness:error')
            if len(res.inconclusive) < 3:
                res.inconclusive.append('harness error: ' + H.fmt_exc())
    return res


def replay(case):
    res = H.Result(ID)
    _, T, v, codec, eh = case
    check_case(res, T, v, None, variant=bytes.fromhex(eh) if codec == 'BER' else None)
    res.witnesses = [w for w in res.witnesses if "'%s'" % codec in w['case']]
    return res
