"""C10 Whatever a decoder accepts is a well-formed, re-encodable value of the type (DESIGN 4/C10)."""
from pyasn1.codec.ber import decoder as ber_decoder
from pyasn1.codec.cer import decoder as cer_decoder
from pyasn1.codec.der import decoder as der_decoder
from pyasn1.codec.der import encoder as der_encoder
from pyasn1.codec.ber import encoder as ber_encoder
from pyasn1.codec.cer import encoder as cer_encoder
from pyasn1.type import char, namedtype, namedval, tag, univ, useful
from pyasn1 import error

from .. import universe as U
from .. import refx690 as R
from .. import refconstraint as RC
from .. import build as B
from .. import harness as H
from .. import monitors as M
from . import common as C

ID = 'C10'
LEVEL = 'exploration'
TECHNIQUE = ('runtime monitoring: every value a real decoder returns for valid, neighbouring and damaged inputs is '
             'checked by an independent well-typedness and constraint evaluator and by the encode/decode fixpoint')
RULE = ('cases = (T with value/size/alphabet/component-presence constraints placed at random sites, input b) with b in '
        '{valid encodings, encodings of neighbour values (one constraint site violated, one mandatory component '
        'dropped), byte mutations of both}; only inputs the decoder accepts reach the oracle (acceptance counts are in '
        'the evidence); non-trivial = accepted input; distinct = sha1 of (T, constraints, b, decoder)')
ASSUMPTIONS = ['refconstraint evaluates constraints set-theoretically on abstract values',
               'silent tolerance of duplicated SET members is not demanded against',
               'the fixpoint is taken with the encoder of the codec whose decoder accepted the input; values inside zones of pinned encoder findings are skipped']
KEY_FEATURES = ('input', 'decoder', 'site')

DEC = {'BER': ber_decoder, 'CER': cer_decoder, 'DER': der_decoder}
ENC = {'BER': ber_encoder, 'CER': cer_encoder, 'DER': der_encoder}


def plan(tier, seed):
    return C.plan_counts(tier, 16 * 3000, 16 * 50000)


# ------------------------------------------------------------------ constraints placed on a universe type

def sites(T, path=()):
    """Eligible constraint sites: list of (path, base kind, type at that path)."""
    out = []
    Bt = U.base_of(T)
    k = Bt[0]
    if k in ('int', 'octs', 'bits', 'char', 'seqof', 'setof', 'seq', 'set', 'oid', 'enum'):
        out.append((path, k, Bt))
    if k in ('seq', 'set'):
        for name, ft, pres, dv in Bt[1]:
            if pres == 'def':
                continue        # a DEFAULT value would have to satisfy the constraint as well: keep it simple
            out += sites(ft, path + (name,))
    elif k in ('seqof', 'setof'):
        out += sites(Bt[1], path + ('*',))
    elif k == 'choice':
        for name, a in Bt[1]:
            out += sites(a, path + ('?' + name,))
    return out


OIDS = [(1, 3, 6, 1), (2, 5, 4, 3), (0, 9, 2342), (1, 2, 840, 113549), (2, 999, 1)]


def _size_c(rng, los, spans):
    lo = rng.choice(los)
    return ('size', lo, lo + rng.choice(spans))


def _compose(rng, leaf):
    """Now and then the constraint is a small expression, or a derivation chain whose second link repeats an operand
    of the first link's union (T.subtype(A | B).subtype(A): the denotation is A)."""
    r = rng.random()
    a = leaf()
    if r < 0.7:
        return a
    b = leaf()
    if r < 0.8:
        return ('or', (a, b))
    if r < 0.9:
        return ('chain', (('or', (a, b)), rng.choice([a, b])))
    return ('chain', (a, ('or', (a, b))))


def gen_constraint(rng, kind, Bt):
    if kind == 'int':
        r = rng.random()
        if r < 0.5:
            def leaf():
                lo = rng.choice([-129, -1, 0, 1, 100, 2 ** 31])
                return ('range', lo, lo + rng.choice([0, 1, 10, 255, 2 ** 16]))
            return _compose(rng, leaf)
        if r < 0.8:
            return ('single', tuple(sorted(rng.sample([-2, -1, 0, 1, 2, 5, 127, 128, 255, 256], 3))))
        return ('or', (('range', 0, 5), ('range', 100, 200)))
    if kind in ('octs', 'bits'):
        return _compose(rng, lambda: _size_c(rng, [0, 1, 2, 8], [0, 1, 3, 16]))
    if kind == 'char':
        if rng.random() < 0.5:
            return _compose(rng, lambda: _size_c(rng, [0, 1, 2], [0, 2, 8]))
        return ('alpha', tuple('abc012 '))
    if kind in ('seqof', 'setof'):
        return _compose(rng, lambda: _size_c(rng, [0, 1, 2], [0, 1, 2]))
    if kind == 'oid':
        return ('single', tuple(rng.sample(OIDS, rng.randint(1, 3))))
    if kind == 'enum':
        nums = [n for _, n in Bt[1]]
        return ('single', tuple(sorted(rng.sample(nums, rng.randint(1, len(nums))))))
    if kind in ('seq', 'set'):
        opt = [f[0] for f in Bt[1] if f[2] == 'opt']
        if not opt:
            return None
        return ('withc', tuple((f, rng.choice(['present', 'absent'])) for f in rng.sample(opt, rng.randint(1, len(opt)))))
    return None


def sizes(Cx, admit=True):
    """The sizes 0..max+2 a size expression admits (or refuses)."""
    top = max(RC.boundaries(Cx) or [0]) + 2
    return [n for n in range(0, top + 1) if RC.admits(Cx, [None] * n) == admit]


def is_size_expr(Cx):
    return Cx[0] == 'size' or (Cx[0] in ('or', 'and', 'chain') and all(is_size_expr(c) for c in Cx[1]))


def cval(kind, v):
    """Abstract value -> the python value the constraint talks about."""
    return v


def value_at(T, v, path):
    """Yield the values at `path` ('*' fans out over list members, '?alt' follows a chosen alternative)."""
    Bt = U.base_of(T)
    if not path:
        yield Bt, v
        return
    p, rest = path[0], path[1:]
    if p == '*':
        for x in v:
            for y in value_at(Bt[1], x, rest):
                yield y
    elif p.startswith('?'):
        if v[0] == p[1:]:
            for y in value_at(dict(Bt[1])[p[1:]], v[1], rest):
                yield y
    else:
        if p in v:
            ft = [f for f in Bt[1] if f[0] == p][0][1]
            for y in value_at(ft, v[p], rest):
                yield y


def violated(T, v, cons):
    out = []
    for path, Cx in cons.items():
        for Bt, val in value_at(T, v, path):
            try:
                ok = RC.admits(Cx, val)
            except Exception:
                ok = False
            if not ok:
                out.append(path)
                break
    return out


def cschema(T, cons, path=()):
    """pyasn1 schema for T with the constraints applied at their sites."""
    k = T[0]
    if k == 'tag':
        inner = cschema(T[4], cons, path)
        cls = {'A': tag.tagClassApplication, 'C': tag.tagClassContext, 'P': tag.tagClassPrivate}[T[2]]
        if T[1] == 'E' or U.is_untagged_open(T[4]):
            return inner.subtype(explicitTag=tag.Tag(cls, tag.tagFormatConstructed, T[3]))
        return inner.subtype(implicitTag=tag.Tag(cls, tag.tagFormatSimple, T[3]))
    if k in ('seq', 'set'):
        nts = []
        for name, ft, pres, dv in T[1]:
            sub = cschema(ft, cons, path + (name,))
            if pres == 'req':
                nts.append(namedtype.NamedType(name, sub))
            elif pres == 'opt':
                nts.append(namedtype.OptionalNamedType(name, sub))
            else:
                nts.append(namedtype.DefaultedNamedType(name, B.value(ft, dv, sch=sub)))
        s = (univ.Sequence if k == 'seq' else univ.Set)(componentType=namedtype.NamedTypes(*nts))
    elif k in ('seqof', 'setof'):
        s = (univ.SequenceOf if k == 'seqof' else univ.SetOf)(componentType=cschema(T[1], cons, path + ('*',)))
    elif k == 'choice':
        s = univ.Choice(componentType=namedtype.NamedTypes(
            *[namedtype.NamedType(n, cschema(a, cons, path + ('?' + n,))) for n, a in T[1]]))
    else:
        s = B.schema(T)
    if path in cons:
        if cons[path][0] == 'chain':
            for link in cons[path][1]:
                s = s.subtype(subtypeSpec=RC.to_pyasn1(link))
        else:
            s = s.subtype(subtypeSpec=RC.to_pyasn1(cons[path]))
    return s


def break_value(rng, T, v, cons):
    """A neighbour of v that violates exactly one constraint site (or None)."""
    import copy
    paths = list(cons)
    rng.shuffle(paths)
    for path in paths:
        if '*' in path or any(p.startswith('?') for p in path):
            continue
        Cx = cons[path]
        v2 = copy.deepcopy(v)
        # walk to the parent
        parent, key, Tcur = None, None, T
        cur = v2
        ok = True
        for p in path:
            Bt = U.base_of(Tcur)
            if not isinstance(cur, dict) or p not in cur:
                ok = False
                break
            parent, key = cur, p
            Tcur = [f for f in Bt[1] if f[0] == p][0][1]
            cur = cur[p]
        if not ok:
            continue
        Bt = U.base_of(Tcur)
        k = Bt[0]
        new = None
        if k == 'int':
            for cand in sorted(RC.boundaries(Cx)):
                for d in (-1, 1, -1000, 1000):
                    if not RC.admits(Cx, cand + d):
                        new = cand + d
                        break
                if new is not None:
                    break
        elif k == 'octs':
            bad = sizes(Cx, False) if is_size_expr(Cx) else []
            if bad:
                new = b'x' * rng.choice(bad)
        elif k == 'bits':
            bad = sizes(Cx, False) if is_size_expr(Cx) else []
            if bad:
                new = (rng.choice(bad), 0)
        elif k == 'char':
            if is_size_expr(Cx):
                bad = sizes(Cx, False)
                if bad:
                    new = 'a' * rng.choice(bad)
            else:
                new = (cur or '') + 'Z'
        elif k in ('seqof', 'setof'):
            bad = sizes(Cx, False) if is_size_expr(Cx) else []
            if bad:
                o = U.GenOpts(depth=1)
                new = [U.gen_value(rng, Bt[1], o, small=True) for _ in range(rng.choice(bad))]
        elif k == 'oid':
            new = rng.choice([x for x in OIDS + [(1, 3, 6, 2)] if x not in Cx[1]])
        elif k == 'enum':
            others = [n for _, n in Bt[1] if n not in Cx[1]]
            if others:
                new = rng.choice(others)
        elif k in ('seq', 'set') and Cx[0] == 'withc':
            f, want = rng.choice(Cx[1])
            new = dict(cur)
            if want == 'present':
                new.pop(f, None)
            else:
                ft = [g for g in Bt[1] if g[0] == f][0][1]
                new[f] = U.gen_value(rng, ft, U.GenOpts(depth=1), small=True)
        if new is None:
            continue
        if parent is None:
            v2 = new
        else:
            parent[key] = new
        if violated(T, v2, cons):
            return v2, path
    return None


def drop_mandatory(rng, T, v):
    Bt = U.base_of(T)
    if Bt[0] in ('seq', 'set') and isinstance(v, dict):
        req = [f[0] for f in Bt[1] if f[2] == 'req' and f[0] in v]
        if req:
            v2 = dict(v)
            del v2[rng.choice(req)]
            return v2
    return None


def duplicated_member(rng, T, v):
    """Encodings of a record in which one member's TLV is replaced by a copy of another member's - as many members
    as declared, one of them missing - in definite and in indefinite length form; also with a member simply left
    out in indefinite form."""
    Bt = U.base_of(T)
    if T[0] not in ('seq', 'set') or not isinstance(v, dict):
        return []
    try:
        e = R.der(T, v)
        top = R.parse_one(e, 0)
    except Exception:
        return []
    kids = [e[c.start:c.end] for c in top.children or ()]
    if len(kids) < 2:
        return []
    i, j = rng.sample(range(len(kids)), 2)
    out = []
    head = R.ident('U', 16 if T[0] == 'seq' else 17, True)
    for contents in (b''.join(kids[:i] + [kids[j]] + kids[i + 1:]), b''.join(kids[:i] + kids[i + 1:])):
        out.append(head + R.length_min(len(contents)) + contents)
        out.append(head + b'\x80' + contents + b'\x00\x00')
    return out


# ------------------------------------------------------------------ the oracle

def check_input(res, T, cons, schema, data, origin, dname, feats0):
    dec = DEC[dname]
    case = ('c10', T, tuple(sorted(cons.items())), data.hex(), dname)
    feats = set(feats0) | {'input:' + origin, 'decoder:' + dname}
    res.see('inputs:' + origin)
    try:
        # (the CPU-time guard only keeps a shard from being held up for hours by one input - a REAL with an
        # astronomically large exponent printed inside a constraint error message did that before fix 8bc454b;
        # deciding that is C08's business, here the input is merely counted)
        with M.cpu_guard(30.0):
            d, rest = dec.decode(data, asn1Spec=schema)
    except error.PyAsn1Error:
        res.see('rejected:' + origin)
        res.evaluations += 1
        return
    except M.CpuBudgetExceeded:
        res.see('decoder-burnt-more-than-30-cpu-seconds')
        res.evaluations += 1
        return
    except Exception as ex:
        res.see('leak:' + type(ex).__name__)      # C08's business
        res.evaluations += 1
        return
    res.see('accepted:' + origin)
    res.case(U.case_hash(T, tuple(sorted(cons.items())), data, dname), True)
    try:
        a = B.absval(d, T)
    except B.NotAValue as ex:
        res.witness('accepted-incomplete-or-mistyped', feats, case, ex)
        return
    bad = violated(T, a, cons)
    if bad:
        kinds = sorted(set(cons[p][0] + ':' + site_kind(T, p) for p in bad))
        res.witness('accepted-constraint-violation:' + kinds[0], feats | set('site:' + k for k in kinds), case,
                    'sites %r value %r' % (bad, a))
        return
    res.see('constraints-evaluated', len(cons))
    for p in cons:
        res.see('constraint-kind:' + cons[p][0])
    # fixpoint with the DER codec (outside the zones of pinned encoder findings); zones are those of the value the
    # decoder actually returned, not of the value the input was derived from
    try:
        feats = feats | set(f for f in U.type_features(T, a) if not f.startswith('type:'))
    except Exception:
        pass
    try:
        want, zone = R.like_pyasn1_used(T, a, dname, emulate=C.EMULATE[dname])
        zone = zone - C.HARMLESS_FOR_ROUNDTRIP
    except R.EmuRaises as er:
        zone = {er.args[1]}
    except Exception:
        zone = set()
    if zone or 'default-constructed' in feats or 'default-choice' in feats:
        res.see('fixpoint-skipped:in-zone')
        return
    if dname in ('CER', 'DER') and noncanonical_time(T, a):
        feats = feats | {'accepted-noncanonical-time'}
    try:
        e2 = ENC[dname].encode(d)
    except Exception as ex:
        c = H.classify_exception(ex)
        res.witness('accepted-value-not-encodable:%s' % (c if not isinstance(c, tuple) else 'leak:' + c[1]), feats, case, ex)
        return
    try:
        d2, rest2 = dec.decode(e2, asn1Spec=schema)
        a2 = B.absval(d2, T)
    except Exception as ex:
        res.witness('re-encoding-not-decodable', feats, case, '%s: %s' % (type(ex).__name__, ex))
        return
    if rest2 or U.canon(T, a2) != U.canon(T, a):
        res.witness('fixpoint-differs:' + C.diff_kind(T, a, a2), feats, case, '%r vs %r' % (a, a2))
        return
    res.see('fixpoint-ok')


import re as _re

_GT = _re.compile(r'^\d{14}(\.\d*[1-9])?Z$')
_UT = _re.compile(r'^\d{12}Z$')


def noncanonical_time(T, v):
    """Does the abstract value hold a GeneralizedTime/UTCTime string outside the CER/DER canonical form?"""
    Bt = U.base_of(T)
    k = Bt[0]
    if k == 'useful':
        if Bt[1] == 'GeneralizedTime':
            return not _GT.match(v)
        if Bt[1] == 'UTCTime':
            return not _UT.match(v)
        return False
    if k in ('seq', 'set'):
        return any(noncanonical_time(f[1], v[f[0]]) for f in Bt[1] if f[0] in v)
    if k in ('seqof', 'setof'):
        return any(noncanonical_time(Bt[1], x) for x in v)
    if k == 'choice':
        return noncanonical_time(dict(Bt[1])[v[0]], v[1])
    return False


def site_kind(T, path):
    Tc = T
    for p in path:
        Bt = U.base_of(Tc)
        if p == '*':
            Tc = Bt[1]
        elif p.startswith('?'):
            Tc = dict(Bt[1])[p[1:]]
        else:
            Tc = [f for f in Bt[1] if f[0] == p][0][1]
    return U.base_of(Tc)[0]


def value_at_type(T, p):
    return ()


def has_fieldless(T):
    k = T[0]
    if k == 'tag':
        return has_fieldless(T[4])
    if k in ('seq', 'set'):
        return not T[1] or any(has_fieldless(f[1]) for f in T[1])
    if k in ('seqof', 'setof'):
        return has_fieldless(T[1])
    if k == 'choice':
        return any(has_fieldless(a) for _, a in T[1])
    return False


def make_case(rng, tier):
    for _ in range(30):
        T, v = C.gen_case(rng, tier, allow_any=False, big_strings=False)
        if 'empty-record-type' in U.type_features(T, v) or has_fieldless(T):
            continue    # a SEQUENCE/SET without declared components is the library's untyped container
        ss = sites(T)
        if not ss:
            continue
        cons = {}
        for path, kind, Bt in rng.sample(ss, min(len(ss), rng.choice([1, 1, 2, 3]))):
            Cx = gen_constraint(rng, kind, Bt)
            if Cx is not None:
                cons[path] = Cx
        if not cons:
            continue
        # find a satisfying value
        o = C.opts_for(tier, rng, allow_any=False, big_strings=False)
        for _ in range(40):
            if not violated(T, v, cons):
                return T, v, cons
            v = fix_value(rng, T, v, cons, o)
        # drop the sites that stay violated
        for p in violated(T, v, cons):
            del cons[p]
        if cons and not violated(T, v, cons):
            return T, v, cons
    return None


def fix_value(rng, T, v, cons, o):
    """Regenerate v, steering constrained scalars into their sets where that is easy."""
    v = U.gen_value(rng, T, o)
    return steer(rng, T, v, cons, ())


def steer(rng, T, v, cons, path):
    Bt = U.base_of(T)
    k = Bt[0]
    Cx = cons.get(path)
    if k in ('seq', 'set'):
        out = {}
        for name, ft, pres, dv in Bt[1]:
            want = None
            if Cx is not None and Cx[0] == 'withc':
                want = dict(Cx[1]).get(name)
            if name in v and want != 'absent':
                out[name] = steer(rng, ft, v[name], cons, path + (name,))
            elif want == 'present' and pres == 'opt':
                out[name] = steer(rng, ft, U.gen_value(rng, ft, U.GenOpts(depth=1, allow_any=False), small=True), cons,
                                  path + (name,))
            elif name in v and want == 'absent' and pres == 'opt':
                continue
            elif name in v:
                out[name] = steer(rng, ft, v[name], cons, path + (name,))
        return out
    if k in ('seqof', 'setof'):
        items = [steer(rng, Bt[1], x, cons, path + ('*',)) for x in v]
        if Cx is not None and is_size_expr(Cx) and sizes(Cx):
            n = rng.choice(sizes(Cx))
            while len(items) < n:
                items.append(steer(rng, Bt[1], U.gen_value(rng, Bt[1], U.GenOpts(depth=1, allow_any=False), small=True),
                                   cons, path + ('*',)))
            items = items[:n]
        return items
    if k == 'choice':
        return (v[0], steer(rng, dict(Bt[1])[v[0]], v[1], cons, path + ('?' + v[0],)))
    if Cx is None:
        return v
    if k == 'int':
        for cand in sorted(RC.boundaries(Cx), key=lambda x: rng.random()):
            for d in (0, 1, -1):
                if RC.admits(Cx, cand + d):
                    return cand + d
        return v
    if k == 'octs' and is_size_expr(Cx) and sizes(Cx):
        return U.gen_bytes(rng, rng.choice(sizes(Cx)))
    if k == 'bits' and is_size_expr(Cx) and sizes(Cx):
        n = rng.choice(sizes(Cx))
        return (n, rng.getrandbits(n) if n else 0)
    if k == 'char':
        if is_size_expr(Cx):
            if not sizes(Cx):
                return v
            return ''.join(rng.choice('ab01') for _ in range(rng.choice(sizes(Cx))))
        return ''.join(rng.choice(Cx[1]) for _ in range(rng.randint(0, 6)))
    if k in ('oid', 'enum'):
        return rng.choice(Cx[1])
    return v


def char_ok(T):
    """Keep alphabet/size steering simple: character types that can hold 'ab01 '."""
    return True


def run_case(res, rng, tier):
    mc = make_case(rng, tier)
    if mc is None:
        res.see('skipped:no-constraint-site')
        return
    T, v, cons = mc
    try:
        schema = cschema(T, cons)
        obj = B.value(T, v, sch=schema)
    except Exception as ex:
        res.see('skipped:constrained-build-raised:' + type(ex).__name__)
        res.see_in('build-notes', ('%s: %s' % (type(ex).__name__, ex))[:160])
        return
    feats0 = U.type_features(T, v)
    inputs = []
    try:
        inputs.append(('valid', R.der(T, v)))
        inputs.append(('valid', R.ber_variant(T, v, rng)[0]))
        inputs.append(('valid', R.cer(T, v)))
    except Exception:
        return
    bv = break_value(rng, T, v, cons)
    if bv is not None:
        v2, path = bv
        try:
            inputs.append(('neighbour-constraint', R.der(T, v2)))
            inputs.append(('neighbour-constraint', R.ber_variant(T, v2, rng)[0]))
        except Exception:
            pass
    dm = drop_mandatory(rng, T, v)
    if dm is not None:
        try:
            inputs.append(('neighbour-missing-mandatory', R.der(T, dm)))
        except Exception:
            pass
    for data in duplicated_member(rng, T, v):
        inputs.append(('neighbour-duplicated-member', data))
    for origin, data in list(inputs):
        for _ in range(2):
            inputs.append(('mutated-' + origin.split('-')[0], C.mutate(rng, data)[1]))
    for origin, data in inputs:
        dname = 'DER' if origin == 'valid' and data is inputs[0][1] else rng.choice(['BER', 'BER', 'CER', 'DER'])
        check_input(res, T, cons, schema, data, origin, dname, feats0)
    if len(res.samples) < 4:
        res.sample({'type': U.show_type(T)[:300], 'constraints': dict((repr(p), RC.show(c)) for p, c in cons.items()),
                    'value': repr(v)[:200], 'inputs': len(inputs)})


def run_shard(shard, tier, seed):
    res = H.Result(ID)
    rng = C.rng_for(seed, ID, shard['shard'])
    budget = C.Budget(tier)
    for i in range(shard['n']):
        if budget.expired(res):
            break
        try:
            run_case(res, rng, tier)
        except Exception:
            res.see('harness:error')
            if len(res.inconclusive) < 3:
                res.inconclusive.append('harness error: ' + H.fmt_exc())
    return res


def replay(case):
    res = H.Result(ID)
    _, T, consitems, hexdata, dname = case
    cons = dict(consitems)
    schema = cschema(T, cons)
    check_input(res, T, cons, schema, bytes.fromhex(hexdata), 'replay', dname, U.type_features(T))
    return res


def conclusive(m, tier):
    acc = sum(v for k, v in m['obs'].items() if k.startswith('accepted:'))
    tot = sum(v for k, v in m['obs'].items() if k.startswith('inputs:'))
    if tot and acc < 0.01 * tot:
        return ['fewer than 1%% of the inputs were accepted (%d of %d)' % (acc, tot)]
    if not m['obs'].get('accepted:neighbour-constraint', 0) and not m['obs'].get('rejected:neighbour-constraint', 0):
        return ['no neighbour input was produced']
