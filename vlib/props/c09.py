"""C09 Every valid BER form of a value decodes to that value (DESIGN 4/C09)."""
from pyasn1.codec.ber import decoder as ber_decoder

from .. import universe as U
from .. import refx690 as R
from .. import harness as H
from . import common as C

ID = 'C09'
LEVEL = 'exploration'
TECHNIQUE = ('runtime monitoring: independent nondeterministic BER writer (every X.690 sender option is a recorded '
             'random choice) feeding the real BER decoder; oracle = abstract-value equality and empty remainder')
RULE = ('cases = (T, v, choice vector) where the choice vector fixes length form, definite/indefinite, segmentation '
        'tree, TRUE octet, SET permutation and DEFAULT presence per element; non-trivial = the variant differs from the '
        'DER encoding; distinct = sha1 of the variant bytes and T')
ASSUMPTIONS = ['refx690 writer produces only encodings X.690 permits (each variant is first read back by the '
               'independent reader; a failure there is a harness error, not a violation)', 'universe legality rules']
KEY_FEATURES = ('ch:segment', 'ch:nested_segment', 'ch:indef', 'ch:overlong', 'ch:setperm', 'ch:default_present',
                'ch:real', 'type:any')


def plan(tier, seed):
    return C.plan_counts(tier, 16 * 2500, 16 * 40000)


def choice_features(log):
    f = set()
    for name, val in log:
        if name in ('segment', 'nested_segment', 'indef', 'overlong', 'true_any', 'default_present', 'real_variant'):
            if val:
                f.add('ch:' + name.replace('real_variant', 'real').replace('true_any', 'true'))
        elif name in ('setperm', 'setofperm'):
            if list(val) != sorted(val):
                f.add('ch:' + name)
        elif name == 'cuts':
            if 0 in val:
                f.add('ch:empty-segment')
            if len(val) == 0:
                f.add('ch:no-segments')
        elif name == 'bin':
            f.add('ch:real-' + val)
        elif name == 'nr':
            f.add('ch:real-' + val)
    return f


def check_variant(res, bt, x, log):
    T, v = bt.T, bt.v
    case = ('c09', T, v, tuple(log))
    feats = set(bt.feats) | choice_features(log)
    try:
        rv, rest = R.read(T, x, 'BER')
        if rest or U.canon(T, rv) != bt.cv:
            raise AssertionError('reference reader disagrees with reference writer')
        res.see('reference-selfchecks')
    except Exception as ex:
        res.see('harness:variant-selfcheck-failed')
        if len(res.inconclusive) < 3:
            res.inconclusive.append('variant self-check failed: %s on %r' % (ex, case))
        return
    der = R.der(T, v)
    res.case(U.case_hash(T, x), x != der)
    for f in feats:
        if f.startswith('ch:'):
            res.see(f)
    if C.check_roundtrip(res, 'ber', ber_decoder.decode, x, bt, case, feats):
        res.see('variant-ok')


def run_shard(shard, tier, seed):
    res = H.Result(ID)
    rng = C.rng_for(seed, ID, shard['shard'])
    # contents as long as the values at which a length field grows by an octet (C03's family, below 2**24)
    from . import c03
    for j, (T, v) in enumerate(c03.length_boundary_cases('quick')):
        if j % C.NSHARDS != shard['shard']:
            continue
        try:
            bt = C.try_build(res, T, v)
            if bt is None:
                continue
            for _ in range(2):
                x, ch = R.ber_variant(T, v, rng)
                check_variant(res, bt, x, ch.log)
            res.see('length-boundary-cases')
        except Exception:
            res.see('harness:error')
            if len(res.inconclusive) < 3:
                res.inconclusive.append('harness error: ' + H.fmt_exc())
    for i in range(shard['n']):
        T, v = C.gen_case(rng, tier, any_maker=R.ber_any_maker, big_strings=rng.random() < 0.05)
        try:
            bt = C.try_build(res, T, v)
            if bt is None:
                continue
            for j in range(6 if tier == 'quick' else 12):
                x, ch = R.ber_variant(T, v, rng)
                check_variant(res, bt, x, ch.log)
            if len(res.samples) < 4:
                res.sample(C.sample_of(T, v, variant_hex=x.hex()[:300], choices=repr(ch.log)[:400]))
        except Exception:
            res.see('harness:error')
            if len(res.inconclusive) < 3:
                res.inconclusive.append('harness error: ' + H.fmt_exc())
    return res


def replay(case):
    res = H.Result(ID)
    _, T, v, log = case
    bt = C.try_build(res, T, v)
    if bt is None:
        return res
    import random
    x, ch = R.ber_variant(T, v, random.Random(0), script=[(n, val) for n, val in log])
    check_variant(res, bt, x, ch.log)
    return res
