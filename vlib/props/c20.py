"""C20 Time values convert to and from datetime without changing the instant (DESIGN 4/C20)."""
import datetime
import re
from fractions import Fraction

from pyasn1.codec.cer import encoder as cer_encoder
from pyasn1.codec.der import encoder as der_encoder
from pyasn1 import error
from pyasn1.type import useful

from .. import universe as U
from .. import refx690 as R
from .. import harness as H
from . import common as C

ID = 'C20'
LEVEL = 'exploration'
TECHNIQUE = ('runtime monitoring: datetime round-trip oracle on fromDateTime/asDateTime, and an independent X.680 time '
             'reader deciding that CER/DER output is canonical and denotes the same instant as the string it was given')
RULE = ('cases = (a) datetimes over years 1..9999 (GeneralizedTime) / 1969..2068 (UTCTime) x microseconds {0, 1000, '
        '5000, 50000, 120000, 999000, random ms} x UTC offsets {none, 0, +-1, +-30, +-60, +-90, +-330, +-840 min}; '
        '(b) time strings generated from the X.680 grammar (fraction of 0..6 digits with . or , ; with/without '
        'seconds/minutes; Z / +-hhmm / +-hh / local) fed to the CER and DER encoders; non-trivial = offset or '
        'fraction present; distinct = the datetime / the string')
ASSUMPTIONS = ['a refusal (PyAsn1Error) of a string that is not UTC or cannot be canonicalised is allowed; silently '
               'changing the instant is not', 'the independent reader implements X.680 46/47 (fraction applies to the '
               'last time unit present)']
KEY_FEATURES = ('kind', 'codec')

OFFSETS = [None, 0, 1, -1, 30, -30, 60, -60, 90, -90, 330, -330, 840, -840]
MICROS = [0, 1000, 5000, 50000, 120000, 999000]


def plan(tier, seed):
    return C.plan_counts(tier, 16 * 90000, 16 * 600000)


# ------------------------------------------------------------------ independent X.680 reader

_GT = re.compile(r'^(\d{4})(\d{2})(\d{2})(\d{2})(?:(\d{2})(?:(\d{2}))?)?(?:[.,](\d+))?(Z|[+-]\d{2}(?:\d{2})?)?$')
_UT = re.compile(r'^(\d{2})(\d{2})(\d{2})(\d{2})(\d{2})(\d{2})?(Z|[+-]\d{4})$')


class NotATime(Exception):
    pass


def read_time(kind, s):
    """-> (utc_instant as Fraction of seconds since 0001-01-01, offset_minutes or None for local time)"""
    if kind == 'GeneralizedTime':
        m = _GT.match(s)
        if not m:
            raise NotATime(s)
        y, mo, d, h, mi, se, frac, tz = m.groups()
        y = int(y)
    else:
        m = _UT.match(s)
        if not m:
            raise NotATime(s)
        yy, mo, d, h, mi, se, tz = m.groups()
        frac = None
        y = int(yy)
        y += 2000 if y < 69 else 1900     # the library's (POSIX %y) window
    try:
        base = datetime.datetime(y, int(mo), int(d), int(h), int(mi or 0), int(se or 0))
    except ValueError:
        raise NotATime(s)
    secs = Fraction((base - datetime.datetime(1, 1, 1)).days * 86400 + base.hour * 3600 + base.minute * 60 + base.second)
    if frac:
        f = Fraction(int(frac), 10 ** len(frac))
        unit = 1 if se is not None else (60 if mi is not None else 3600)
        secs += f * unit
    if tz is None:
        return secs, None
    if tz == 'Z':
        return secs, 0
    sign = 1 if tz[0] == '+' else -1
    off = sign * (int(tz[1:3]) * 60 + int(tz[3:5] or 0))
    return secs - off * 60, off


def canonical_problems(kind, s):
    out = []
    if not s.endswith('Z'):
        out.append('not-Z')
    if ',' in s:
        out.append('comma')
    if '.' in s:
        frac = s[s.index('.') + 1:].rstrip('Z')
        if frac == '':
            out.append('dangling-point')
        elif frac.endswith('0'):
            out.append('trailing-zeros')
    return out


def canonical_form(s):
    """What canonicalising a UTC time string with '.' fraction should give: trailing zeros and a dangling
    point removed, nothing else touched."""
    if '.' not in s or not s.endswith('Z'):
        return s
    head, frac = s[:-1].split('.', 1)
    frac = frac.rstrip('0')
    return head + ('.' + frac if frac else '') + 'Z'


# ------------------------------------------------------------------ (a) datetime round trip

def check_datetime(res, kind, dt):
    cls = getattr(useful, kind)
    case = ('c20-dt', kind, dt.year, dt.month, dt.day, dt.hour, dt.minute, dt.second, dt.microsecond,
            None if dt.utcoffset() is None else int(dt.utcoffset().total_seconds() // 60))
    feats = {'kind:' + kind, 'offset:' + ('none' if dt.utcoffset() is None else
                                          ('zero' if not dt.utcoffset() else ('east' if dt.utcoffset() > datetime.timedelta(0) else 'west')))}
    res.case(U.case_hash(case), dt.utcoffset() is not None or dt.microsecond)
    res.see('datetime-roundtrips:' + kind)
    res.see('offset:%s' % case[-1])
    res.see('micro:%s' % (dt.microsecond if dt.microsecond in MICROS else 'rnd'))
    try:
        obj = cls.fromDateTime(dt)
        back = obj.asDateTime
    except Exception as ex:
        c = H.classify_exception(ex)
        res.witness('datetime:raised:%s' % (c if not isinstance(c, tuple) else 'leak:' + c[1]), feats, case, ex)
        return
    want = dt if dt.tzinfo is not None else dt.replace(tzinfo=datetime.timezone.utc)
    if kind == 'UTCTime':
        want = want.replace(microsecond=0)
    if back.tzinfo is None:
        res.witness('datetime:result-is-naive', feats, case, '%s -> %s' % (obj, back))
        return
    if back != want:
        res.witness('datetime:instant-differs', feats, case, '%s -> %s -> %s' % (dt.isoformat(), obj, back.isoformat()))
        return
    if back.utcoffset() != want.utcoffset():
        res.witness('datetime:offset-differs', feats, case, '%s -> %s -> %s' % (dt.isoformat(), obj, back.isoformat()))
        return
    res.see('datetime-ok')


def gen_datetime(rng, kind):
    if kind == 'GeneralizedTime':
        y = rng.choice([1, 2, 99, 100, 999, 1000, 1582, 1899, 1900, 1969, 1970, 1999, 2000, 2038, 2100, 9998, 9999,
                        rng.randint(1, 9999)])
    else:
        y = rng.choice([1969, 1970, 1999, 2000, 2001, 2038, 2049, 2050, 2067, 2068, rng.randint(1969, 2068)])
    mo = rng.randint(1, 12)
    d = rng.randint(1, 28) if rng.random() < 0.8 else rng.choice([29, 30, 31])
    try:
        datetime.date(y, mo, d)
    except ValueError:
        d = 28
    us = rng.choice(MICROS) if rng.random() < 0.7 else rng.randint(0, 999) * 1000
    if kind == 'UTCTime':
        us = 0
    off = rng.choice(OFFSETS)
    tz = None if off is None else datetime.timezone(datetime.timedelta(minutes=off))
    dt = datetime.datetime(y, mo, d, rng.randint(0, 23), rng.randint(0, 59), rng.randint(0, 59), us, tzinfo=tz)
    # keep the UTC image inside the representable range
    if tz is not None:
        try:
            u = dt.astimezone(datetime.timezone.utc)
            if kind == 'UTCTime' and not (1969 <= u.year <= 2068):
                return dt.replace(year=2000)
        except OverflowError:
            return dt.replace(year=2000)
    return dt


# ------------------------------------------------------------------ (b) CER/DER canonicalisation of grammar strings

def gen_time_string(rng, kind):
    if kind == 'GeneralizedTime':
        s = '%04d%02d%02d%02d' % (rng.choice([1, 1970, 1999, 2000, 2024, 9999]), rng.randint(1, 12), rng.randint(1, 28),
                                  rng.randint(0, 23))
        r = rng.random()
        if r < 0.85:
            s += '%02d' % rng.randint(0, 59)
            if r < 0.75:
                s += '%02d' % rng.randint(0, 59)
        if rng.random() < 0.6:
            n = rng.choice([0, 1, 2, 3, 3, 4, 5, 6])
            digits = ''.join(rng.choice('0001259') for _ in range(n))
            s += rng.choice('..,') + digits
        tz = rng.choice(['Z', 'Z', 'Z', '', '+0000', '-0000', '+0130', '-0500', '+02', '-11', '+1400'])
        return s + tz
    s = '%02d%02d%02d%02d%02d' % (rng.choice([0, 1, 49, 50, 68, 69, 99]), rng.randint(1, 12), rng.randint(1, 28),
                                  rng.randint(0, 23), rng.randint(0, 59))
    if rng.random() < 0.8:
        s += '%02d' % rng.randint(0, 59)
    return s + rng.choice(['Z', 'Z', 'Z', '+0000', '-0130', '+0530', ''])


def check_string(res, kind, s):
    cls = getattr(useful, kind)
    try:
        instant, off = read_time(kind, s)
    except NotATime:
        res.see('skipped:not-in-grammar')
        return
    feats0 = {'kind:' + kind, 'tz:' + ('local' if off is None else ('Z' if s.endswith('Z') else 'offset')),
              'fraction:' + ('none' if not re.search(r'[.,]', s) else 'yes')}
    try:
        value = cls(s)
    except error.PyAsn1Error:
        res.see('skipped:constructor-refused')
        return
    for codec, enc in (('CER', cer_encoder.encode), ('DER', der_encoder.encode)):
        case = ('c20-str', kind, s, codec)
        feats = set(feats0) | {'codec:' + codec}
        res.case(U.case_hash(kind, s, codec), off not in (0,) or bool(re.search(r'[.,]', s)))
        res.see('strings-fed:' + kind)
        emu = R.py_time_trim(s) if kind == 'GeneralizedTime' else s
        try:
            e = enc(value)
        except error.PyAsn1Error:
            res.see('refused:' + codec)
            if s.endswith('Z') and ',' not in s:
                res.see('refused-utc-string')
            continue
        except Exception as ex:
            c = H.classify_exception(ex)
            res.witness('encode:leak:%s' % c[1], feats, case, ex)
            continue
        res.see('emitted:' + codec)
        try:
            node = R.parse_one(e, 0)
            out = node.content(e).decode('ascii') if not node.cons else \
                b''.join(R.Reader('BER').collect(node, e, 4)).decode('ascii')
        except Exception as ex:
            res.witness('encode:output-unparseable', feats, case, e.hex()[:100])
            continue
        if off is None or not s.endswith('Z'):
            # not UTC: must have been refused
            res.witness('non-utc-accepted', feats, case, '%s -> %s' % (s, out))
            continue
        probs = canonical_problems(kind, out)
        inst2 = None
        if not probs:
            try:
                inst2, off2 = read_time(kind, out)
            except NotATime:
                res.witness('output-not-a-time', feats, case, '%s -> %s' % (s, out))
                continue
        if probs or inst2 != instant:
            if kind == 'GeneralizedTime' and out == emu and emu != canonical_form(s):
                # the pinned fraction-trimming algorithm (known finding): exactly its output, nothing else
                res.witness('time-fraction-zeros', feats | {'emu:time-fraction-zeros'}, case, '%s -> %s' % (s, out))
            elif probs:
                res.witness('non-canonical-output:' + probs[0], feats, case, '%s -> %s' % (s, out))
            else:
                res.witness('instant-changed', feats, case, '%s -> %s' % (s, out))
            continue
        res.see('canonical-and-same-instant')
    if len(res.samples) < 4:
        res.sample({'kind': kind, 'string': s})


def run_shard(shard, tier, seed):
    res = H.Result(ID)
    rng = C.rng_for(seed, ID, shard['shard'])
    budget = C.Budget(tier)
    for i in range(shard['n']):
        if budget.expired(res):
            break
        kind = rng.choice(['GeneralizedTime', 'GeneralizedTime', 'UTCTime'])
        try:
            if rng.random() < 0.5:
                check_datetime(res, kind, gen_datetime(rng, kind))
            else:
                check_string(res, kind, gen_time_string(rng, kind))
        except Exception:
            res.see('harness:error')
            if len(res.inconclusive) < 3:
                res.inconclusive.append('harness error: ' + H.fmt_exc())
    return res


def replay(case):
    res = H.Result(ID)
    if case[0] == 'c20-dt':
        _, kind, y, mo, d, h, mi, s, us, off = case
        tz = None if off is None else datetime.timezone(datetime.timedelta(minutes=off))
        check_datetime(res, kind, datetime.datetime(y, mo, d, h, mi, s, us, tzinfo=tz))
    else:
        _, kind, s, codec = case
        check_string(res, kind, s)
        res.witnesses = [w for w in res.witnesses if "'%s')" % codec in w['case']]
    return res
