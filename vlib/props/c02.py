"""C02 DER and CER round trip; canonical output accepted by every wider decoder; decoders agree (DESIGN 4/C02)."""
from pyasn1.codec.ber import decoder as ber_decoder
from pyasn1.codec.cer import decoder as cer_decoder
from pyasn1.codec.cer import encoder as cer_encoder
from pyasn1.codec.der import decoder as der_decoder
from pyasn1.codec.der import encoder as der_encoder

from .. import universe as U
from .. import refx690 as R
from .. import build as B
from .. import harness as H
from . import common as C

ID = 'C02'
LEVEL = 'exploration'
TECHNIQUE = ('runtime monitoring: round-trip oracle over the five (encoder, decoder) pairs plus a pairwise agreement '
             'monitor on every byte string two or more decoders accept')
RULE = ('cases = (T, v) from the seeded universe generator (strings around the 1000-octet CER segment size, SET/SET OF '
        'members of unequal length, DEFAULTs equal/unequal); each is DER- and CER-encoded and decoded by every wider '
        'decoder; agreement monitor additionally runs on reference BER variants and on mutated encodings; '
        'non-trivial = constructed/tagged/long string; distinct = sha1 of (T, canon(v))')
ASSUMPTIONS = ['universe legality rules', 'abstraction through public accessors', 'refx690 emulation of pinned encoder findings']
KEY_FEATURES = ('emu:stray-eoo', 'emu:emptyable-optional', 'string>1000', 'pair')

DECODERS = (('DER', der_decoder.decode), ('CER', cer_decoder.decode), ('BER', ber_decoder.decode))
PAIRS = {'DER': ('DER', 'CER', 'BER'), 'CER': ('CER', 'BER')}


def plan(tier, seed):
    return C.plan_counts(tier, 16 * 4000, 16 * 50000)


def accepted_value(decode, data, bt):
    out = C.decode_outcome(decode, data, bt.schema, bt.T)
    if out[0] == 'ok':
        return ('value', U.canon(bt.T, out[1]), out[2])
    if out[0] == 'not-a-value':
        return ('not-a-value', out[1][:80], b'')
    return None


def agreement(res, data, bt, case, origin):
    got = []
    for name, dec in DECODERS:
        a = accepted_value(dec, data, bt)
        if a is not None:
            got.append((name, a))
    if len(got) >= 2:
        res.see('agreement-evaluations')
        res.see('agreement-evaluations:' + origin)
        first = got[0]
        for name, a in got[1:]:
            if a != first[1]:
                res.witness('decoders-disagree:%s-vs-%s' % (first[0], name), set(bt.feats) | {'origin:' + origin},
                            case + (data.hex(),), '%s -> %r ; %s -> %r' % (first[0], first[1], name, a))
                break


def check_case(res, T, v, rng, bt=None, extra=None):
    bt = bt or C.try_build(res, T, v)
    if bt is None:
        return
    res.case(U.case_hash(T, bt.cv), U.base_of(T)[0] not in U.SIMPLE or T[0] == 'tag')
    for codec, enc in (('DER', der_encoder.encode), ('CER', cer_encoder.encode)):
        case = ('c02', T, v, codec)
        feats = set(bt.feats) | {'enc:' + codec}
        out = C.encode_monitored(res, codec.lower(), enc, bt.obj, {}, T, v, codec, codec == 'DER', 0, feats, case)
        if out is None:
            continue
        e, data, used = out
        for dname, dec in DECODERS:
            if dname not in PAIRS[codec]:
                continue
            res.see('pair:%s->%s' % (codec, dname))
            if C.check_roundtrip(res, '%s->%s' % (codec.lower(), dname.lower()), dec, data, bt, case, feats):
                res.see('pair-ok:%s->%s' % (codec, dname))
        agreement(res, data, bt, case, 'canonical')
        if rng is not None:
            kind, m = C.mutate(rng, data)
            agreement(res, m, bt, case, 'mutated')
    if rng is not None:
        for _ in range(2):
            var, ch = R.ber_variant(T, v, rng)
            agreement(res, var, bt, ('c02', T, v, 'variant'), 'ber-variant')
    if extra is not None:
        agreement(res, extra, bt, ('c02', T, v, 'replay'), 'replay')
    if len(res.samples) < 4:
        res.sample(C.sample_of(T, v))


def run_shard(shard, tier, seed):
    res = H.Result(ID)
    rng = C.rng_for(seed, ID, shard['shard'])
    # contents as long as the values at which a length field grows by an octet (C03's family, below 2**24)
    from . import c03
    for j, (T, v) in enumerate(c03.length_boundary_cases('quick')):
        if j % C.NSHARDS != shard['shard']:
            continue
        try:
            check_case(res, T, v, rng)
            res.see('length-boundary-cases')
        except Exception:
            res.see('harness:error')
            if len(res.inconclusive) < 3:
                res.inconclusive.append('harness error: ' + H.fmt_exc())
    for i in range(shard['n']):
        T, v = C.gen_case(rng, tier, big_strings=rng.random() < 0.15)
        try:
            check_case(res, T, v, rng)
        except Exception:
            res.see('harness:error')
            if len(res.inconclusive) < 3:
                res.inconclusive.append('harness error: ' + H.fmt_exc())
    return res


def replay(case):
    if case[0] == 'enc':
        return C.replay_enc(ID, case)
    res = H.Result(ID)
    T, v = case[1], case[2]
    extra = bytes.fromhex(case[4]) if len(case) > 4 else None
    check_case(res, T, v, None, extra=extra)
    return res


def conclusive(m, tier):
    if m['obs'].get('agreement-evaluations', 0) == 0:
        return ['agreement monitor never evaluated']
