"""Helpers shared by the property modules."""
import random

from .. import universe as U
from .. import refx690 as R
from .. import build as B
from .. import harness as H

NSHARDS = 16


def rng_for(seed, prop, shard):
    return random.Random('%s/%s/%s' % (seed, prop, shard))


def plan_counts(tier, quick_total, thorough_total, nshards=NSHARDS):
    total = quick_total if tier == 'quick' else thorough_total
    per = max(1, total // nshards)
    return [{'shard': i, 'n': per} for i in range(nshards)]


def opts_for(tier, rng, **over):
    """Generator options: mostly small and fast, sometimes deep / big strings."""
    r = rng.random()
    depth = 3 if tier == 'quick' else rng.choice([3, 3, 4, 5])
    kw = dict(depth=depth, big_strings=(r < (0.04 if tier == 'quick' else 0.08)))
    kw.update(over)
    return U.GenOpts(**kw)


def gen_case(rng, tier, any_maker=None, **over):
    o = opts_for(tier, rng, **over)
    T = U.gen_type(rng, o, depth=rng.choice([0, 1, 2, o.depth, o.depth]))
    v = U.gen_value(rng, T, o, any_maker=any_maker)
    return T, v


class Built(object):
    """A generated case turned into pyasn1 objects, with the harness cross-checks of DESIGN 2.1 done."""

    def __init__(self, T, v):
        self.T, self.v = T, v
        self.cv = U.canon(T, v)
        self.feats = U.type_features(T, v)
        self.schema = B.schema(T)
        # every other case (by its hash) is built the way values usually are: DEFAULT components equal to their default
        # are simply not set.  Kept out of the zones of the pinned DEFAULT-comparison findings, whose emulation
        # describes the comparison the encoder makes when the component IS set.
        self.defaults_absent = (int(U.case_hash(T, self.cv)[:2], 16) & 1 == 1 and 'default-equal' in self.feats and
                                not ({'default-real-huge', 'default-constructed', 'default-choice'} & set(self.feats)))
        if self.defaults_absent:
            self.obj = B.value(T, v, route=B.OmitDefaults())
            self.feats = set(self.feats) | {'defaults-left-absent'}
        else:
            self.obj = B.value(T, v)
        a = B.absval(self.obj, T)
        if U.canon(T, a) != self.cv:
            raise HarnessMismatch('abs(build(T,v)) != v: %r vs %r' % (a, v))


class HarnessMismatch(Exception):
    pass


def try_build(res, T, v):
    """-> Built or None (and an observation counter; a builder failure is never a property violation here,
    it is reported by C14/C19 where construction is the subject)."""
    try:
        return Built(T, v)
    except HarnessMismatch as e:
        res.see('harness:abs-mismatch')
        res.see_in('harness-notes', str(e)[:200])
    except B.NotAValue as e:
        res.see('harness:built-object-not-a-value')
        res.see_in('harness-notes', str(e)[:200])
    except Exception as e:
        res.see('harness:build-raised:' + type(e).__name__)
        res.see_in('harness-notes', (type(e).__name__ + ': ' + str(e))[:200])
    return None


def diff_kind(T, a, b):
    """Base kind of the first place where abstract values a and b (of type T) differ."""
    B_ = U.base_of(T)
    k = B_[0]
    try:
        if k in ('seq', 'set'):
            for name, ft, pres, dv in B_[1]:
                if (name in a) != (name in b):
                    return 'presence:' + U.base_of(ft)[0]
                if name in a and U.canon(ft, a[name]) != U.canon(ft, b[name]):
                    return diff_kind(ft, a[name], b[name])
            return k
        if k in ('seqof', 'setof'):
            if len(a) != len(b):
                return 'length:' + k
            if k == 'seqof':
                for x, y in zip(a, b):
                    if U.canon(B_[1], x) != U.canon(B_[1], y):
                        return diff_kind(B_[1], x, y)
            return k + '-member:' + U.base_of(B_[1])[0]
        if k == 'choice':
            if a[0] != b[0]:
                return 'alternative'
            return diff_kind(dict(B_[1])[a[0]], a[1], b[1])
    except Exception:
        pass
    return k


def remainder_kind(rest):
    if not rest:
        return None
    if len(rest) % 2 == 0 and not rest.strip(b'\x00'):
        return 'remainder:stray-eoo'
    return 'remainder:other'


def decode_outcome(decode, data, schema, T, **kw):
    """Run a pyasn1 one-shot decoder -> ('ok', absvalue, rest) | ('raised', class-or-leak, exc) |
    ('not-a-value', msg, obj)"""
    try:
        d, rest = decode(data, asn1Spec=schema, **kw)
    except Exception as e:
        c = H.classify_exception(e)
        if isinstance(c, tuple):
            return ('raised', 'leak:' + c[1], e)
        return ('raised', c, e)
    try:
        a = B.absval(d, T)
    except B.NotAValue as e:
        return ('not-a-value', str(e), d)
    return ('ok', a, rest)


def check_roundtrip(res, label, decode, data, bt, case, extra_feats=()):
    """Common oracle: decode(data, bt.schema) == (v, b'').  Records witnesses; returns True when held."""
    feats = set(bt.feats) | set(extra_feats)
    out = decode_outcome(decode, data, bt.schema, bt.T)
    if out[0] == 'raised':
        res.witness('%s:decode-raised:%s' % (label, out[1]), feats, case, '%s on %s' % (out[2], data.hex()[:400]))
        return False
    if out[0] == 'not-a-value':
        res.witness('%s:not-a-value' % label, feats, case, '%s on %s' % (out[1], data.hex()[:400]))
        return False
    _, a, rest = out
    ok = True
    rk = remainder_kind(rest)
    if rk:
        res.witness('%s:%s' % (label, rk), feats, case, 'rest=%s of %s' % (rest.hex()[:80], data.hex()[:400]))
        ok = False
    if U.canon(bt.T, a) != bt.cv:
        res.witness('%s:value-differs:%s' % (label, diff_kind(bt.T, bt.v, a)), feats, case,
                    'got %r from %s' % (a, data.hex()[:400]))
        ok = False
    return ok


def sample_of(T, v, **more):
    d = {'type': U.show_type(T)[:600], 'value': repr(v)[:400]}
    d.update(more)
    return d


EMULATE = {
    'BER': {'real-nr3-nodot', 'emptyable-optional', 'stray-eoo', 'real-default-float'},
    'CER': {'real-nr3-nodot', 'emptyable-optional', 'stray-eoo', 'time-fraction-zeros', 'real-default-float'},
    'DER': {'real-nr3-nodot', 'emptyable-optional', 'time-fraction-zeros', 'real-default-float'},
}
HARMLESS_FOR_ROUNDTRIP = {'real-nr3-nodot'}


def encode_monitored(res, label, enc, obj, kw, T, v, codec, defMode, chunk, feats, case,
                     harmless=HARMLESS_FOR_ROUNDTRIP):
    """Call a pyasn1 encoder under the known-finding emulation oracle (DESIGN 2.7).

    Returns (e, data, used): e = the bytes pyasn1 produced, data = bytes to feed decoder-side oracles
    (== e outside every finding's zone, the reference's corrected rendering of pyasn1's sender choices
    inside one), used = set of emulations that changed the output.  Returns None when a witness (known
    finding or violation) has been recorded and the case must not be examined further."""
    emu_raises = None
    try:
        want, used = R.like_pyasn1_used(T, v, codec, defMode, chunk, EMULATE[codec])
    except R.EmuRaises as er:
        emu_raises = er.args
        want, used = None, {er.args[1]}
    try:
        e = enc(obj, **kw)
    except Exception as ex:
        c = H.classify_exception(ex)
        sym = c if not isinstance(c, tuple) else 'leak:' + c[1]
        if emu_raises and sym.startswith('leak:' + emu_raises[0] + '@'):
            feats = set(feats) | {'emu:' + emu_raises[1]}
            res.witness('%s:%s' % (label, emu_raises[1]), feats, case, ex)
        else:
            res.witness('%s:encode-raised:%s' % (label, sym), feats, case, ex)
        return None
    if not isinstance(e, bytes):
        res.witness('%s:encode-returned-non-bytes' % label, feats, case, type(e))
        return None
    if emu_raises:
        res.witness('%s:in-zone-output-differs-from-emulation' % label, feats, case,
                    'emulation raises %r, library returned %s' % (emu_raises, e.hex()[:200]))
        return None
    bug = used - harmless
    if bug:
        zf = set(feats) | set('emu:' + u for u in used)
        for u in bug:
            res.see('in-zone:' + u)
        if e != want:
            res.witness('%s:in-zone-output-differs-from-emulation' % label, feats, case,
                        'got %s want %s' % (e.hex()[:600], want.hex()[:600]))
            return None
        for u in bug:
            res.witness('%s:%s' % (label, u), zf, case, e.hex()[:400])
        data = R.like_pyasn1(T, v, codec, defMode, chunk, harmless)
        return e, data, used
    res.see('clean:' + label)
    if e != want:
        res.see('emulation-mismatch-out-of-zone')
    return e, e, used


STRUCTURAL_OCTETS = [0x00, 0x01, 0x02, 0x03, 0x04, 0x05, 0x06, 0x09, 0x0a, 0x0c, 0x13, 0x17, 0x18, 0x1f, 0x24,
                     0x30, 0x31, 0x7f, 0x80, 0x81, 0x82, 0x84, 0xa0, 0xa1, 0xbf, 0xff]


def mutate(rng, data, kinds=None):
    """One random damage of a byte string -> (kind, bytes)."""
    data = bytearray(data)
    kind = rng.choice(kinds or ['flip', 'set', 'insert', 'delete', 'truncate', 'length', 'tag', 'splice', 'dup',
                                'indef', 'zero-tail'])
    n = len(data)
    if n == 0:
        return 'insert', bytes([rng.choice(STRUCTURAL_OCTETS)])
    i = rng.randrange(n)
    if kind == 'flip':
        data[i] ^= 1 << rng.randrange(8)
    elif kind == 'set':
        data[i] = rng.choice(STRUCTURAL_OCTETS)
    elif kind == 'insert':
        data[i:i] = bytes(rng.choice(STRUCTURAL_OCTETS) for _ in range(rng.choice([1, 1, 2, 4])))
    elif kind == 'delete':
        del data[i:i + rng.choice([1, 1, 2, 4])]
    elif kind == 'truncate':
        del data[i:]
    elif kind == 'length':
        # rewrite what is probably a length octet near the front or at a random place
        j = 1 if rng.random() < 0.5 and n > 1 else i
        data[j:j + 1] = rng.choice([b'\x80', b'\x00', b'\x7f', b'\x81\x00', b'\x84\xff\xff\xff\xff', b'\x81\xff',
                                    b'\x82\x00\x01', bytes([data[j] ^ 1]), b'\xff', b'\x88' + b'\x7f' * 8])
    elif kind == 'tag':
        j = 0 if rng.random() < 0.5 else i
        data[j] = rng.choice([data[j] ^ 0x20, data[j] ^ 0x80, data[j] ^ 0x40, (data[j] & 0xe0) | 0x1f,
                              rng.choice(STRUCTURAL_OCTETS)])
    elif kind == 'splice':
        j = rng.randrange(n)
        a, b = min(i, j), max(i, j)
        data[a:a] = data[a:b]
    elif kind == 'dup':
        data = data + data[:rng.randrange(n) + 1]
    elif kind == 'indef':
        data[i:i + 1] = b'\x80'
        data += b'\x00\x00' * rng.choice([0, 1, 2])
    elif kind == 'zero-tail':
        data += b'\x00' * rng.choice([1, 2, 3, 4])
    return kind, bytes(data)


def enc_case(T, v, codec, defMode=True, chunk=0):
    """Generic, property-independent case descriptor for an encoder-side observation."""
    return ('enc', T, v, codec, defMode, chunk)


def replay_enc(prop, case):
    """Replay an ('enc', ...) case: run the named encoder under the emulation oracle."""
    from pyasn1.codec.ber import encoder as be
    from pyasn1.codec.cer import encoder as ce
    from pyasn1.codec.der import encoder as de
    res = H.Result(prop)
    _, T, v, codec, defMode, chunk = case
    bt = try_build(res, T, v)
    if bt is None:
        return res
    enc, kw = {'BER': (be.encode, dict(defMode=defMode, maxChunkSize=chunk)), 'CER': (ce.encode, {}),
               'DER': (de.encode, {})}[codec]
    feats = set(bt.feats)
    if codec == 'BER' and not defMode:
        feats.add('indefinite')
    encode_monitored(res, codec.lower(), enc, bt.obj, kw, T, v, codec,
                     {'BER': defMode, 'CER': False, 'DER': True}[codec], {'BER': chunk, 'CER': 1000, 'DER': 0}[codec],
                     feats, case)
    return res


import time as _time


class Budget(object):
    """Budget for one shard: only ever *ends* a workload early (the evidence reports what was actually run); never
    part of a verdict.  Counted in CPU time of the worker process, so that a loaded machine does not shrink the
    workload (and with it what the monitors get to see); a wall-clock cap of three times the amount keeps a check from
    dragging on when the machine is badly overloaded."""

    def __init__(self, tier, quick=35.0, thorough=1500.0):
        self.amount = quick if tier == 'quick' else thorough
        self.cpu0 = _time.process_time()
        self.wall0 = _time.time()

    def expired(self, res=None):
        if _time.process_time() - self.cpu0 > self.amount or _time.time() - self.wall0 > 3 * self.amount:
            if res is not None:
                res.see('time-budget-stop')
            return True
        return False


# ------------------------------------------------------------------ REAL types that ask for base 8 / base 16 (binEncBase)

def realbase_case(rng):
    """-> (base, mantissa, exponent, wrap): a finite non-zero base-2 REAL for a Real subtype with binEncBase set."""
    m = rng.choice([1, 3, 5, 7, 255, 256, 257, 12345, (1 << 53) + 1, (1 << 64) - 1, rng.getrandbits(70) | 1,
                    rng.getrandbits(20) << rng.randint(0, 9), rng.getrandbits(200) | 1]) * rng.choice([1, -1])
    e = rng.choice([0, 1, -1, 2, 3, -2, -3, 4, -4, 5, -5, 7, 8, -8, 127, 128, -127, -128, -129, 255, 256, -255, -256, -257,
                    1000, -1000, 32767, 32768, -32768, -32769, rng.randint(-300, 300), rng.randint(-70000, 70000)])
    wrap = rng.choice(['bare', 'bare', 'implicit', 'explicit', 'in-seq', 'in-seqof'])
    return (rng.choice([8, 16]), m, e, wrap)


_REALBASE_CLASSES = {}


def realbase_objects(base, m, e, wrap):
    """-> (value object of a Real subclass with binEncBase=base, plain schema to decode with, reader of the decoded
    object returning the REAL inside)."""
    from pyasn1.type import namedtype, tag, univ
    cls = _REALBASE_CLASSES.get(base)
    if cls is None:
        cls = _REALBASE_CLASSES[base] = type('RealBase%d' % base, (univ.Real,), {'binEncBase': base})

    def shape(proto):
        if wrap == 'implicit':
            return proto.subtype(implicitTag=tag.Tag(tag.tagClassContext, tag.tagFormatSimple, 40))
        if wrap == 'explicit':
            return proto.subtype(explicitTag=tag.Tag(tag.tagClassApplication, tag.tagFormatConstructed, 2))
        return proto
    inner_v = shape(cls()).clone((m, 2, e))
    inner_s = shape(univ.Real())
    if wrap == 'in-seq':
        def mk(x):
            return univ.Sequence(componentType=namedtype.NamedTypes(
                namedtype.NamedType('n', univ.Integer()), namedtype.NamedType('r', x)))
        val = mk(shape(cls()))
        val['n'] = 7
        val['r'] = inner_v
        return val, mk(inner_s), (lambda d: d['r'])
    if wrap == 'in-seqof':
        val = univ.SequenceOf(componentType=shape(cls()))
        val.append(inner_v)
        val.append(inner_v)
        return val, univ.SequenceOf(componentType=inner_s), (lambda d: d[1])
    return inner_v, inner_s, (lambda d: d)
