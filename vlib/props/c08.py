"""C08 Malformed input fails cleanly: only library errors, always terminates (DESIGN 4/C08)."""
import io
import itertools
import sys

from pyasn1.codec.ber import decoder as ber_decoder
from pyasn1.codec.cer import decoder as cer_decoder
from pyasn1.codec.der import decoder as der_decoder
from pyasn1 import error
from pyasn1.type import base as asn1base
from pyasn1.type import univ

from .. import universe as U
from .. import refx690 as R
from .. import build as B
from .. import harness as H
from .. import monitors as M
from . import common as C

ID = 'C08'
LEVEL = 'exploration'
TECHNIQUE = ('runtime monitoring: exception taxonomy + result-shape contract + logical step/read budgets '
             '(sys.monitoring PY_START/PY_RESUME counter) over exhaustive short strings, mutated encodings and '
             'grammar-built TLV trees, huge integer-valued fields under the default int-to-str limit, constrained guiding types')
RULE = ('inputs = (i) ALL byte strings of length <= 3 over a 28-octet structural alphabet, (ii) valid encodings damaged '
        'by 1..3 mutations (bit flips, structural overwrite, insert/delete, tag/length rewrites incl. 0x80 and huge '
        'lengths, truncation, splice), (iii) TLV trees with wrong lengths/tags nested up to depth 40, (iv) ALL contents '
        'of length <= 2 (REAL, OID, BIT STRING, GeneralizedTime: <= 3; thorough: one more) over 26 octets that are '
        'structural inside contents, under each of 17 leaf tags, (v) REALs whose exponent field spans 3..126 octets, '
        'bare and inside SEQUENCE (SIZE (2..3)) OF REAL and SEQUENCE { r REAL DEFAULT 0, .. }; each x {BER, CER, '
        'DER} x {one-shot, streaming} x {no type, the seed type, an unrelated type}; non-trivial = input is not a valid '
        'encoding of the guiding type; distinct = sha1 of (input, decoder, mode, type)')
ASSUMPTIONS = ['nesting is bounded (<= 40) so RecursionError by sheer depth is outside the claim',
               'work inside a single C call is bounded through CPU time: 20 CPU seconds (ITIMER_PROF) per decoder call',
               'step budget A + B*|input| with A = 6000, B = 600 repo-code call/resume events (measured ~8 per octet on '
               'valid input); read budget 64 + 8*|input| substrate reads']
KEY_FEATURES = ('decoder', 'mode', 'spec')

DEC = (('BER', ber_decoder), ('CER', cer_decoder), ('DER', der_decoder))
ALPHABET = [0x00, 0x01, 0x02, 0x03, 0x04, 0x05, 0x06, 0x09, 0x0a, 0x0c, 0x13, 0x18, 0x1f, 0x23, 0x24, 0x30, 0x31,
            0x3f, 0x7f, 0x80, 0x81, 0x82, 0x84, 0xa0, 0xa1, 0xbf, 0xdf, 0xff]
STEP_A, STEP_B = 6000, 600
READ_A, READ_B = 64, 8

FIXED_SPECS = [
    ('seq', (('a', ('int',), 'opt', None), ('b', ('tag', 'E', 'C', 0, ('octs',)), 'def', b'x'), ('c', ('oid',), 'req', None))),
    ('choice', (('x', ('set', (('p', ('bool',), 'req', None), ('q', ('bits',), 'opt', None)))), ('y', ('real',)),
                ('z', ('tag', 'I', 'C', 1, ('seqof', ('null',)))))),
    ('setof', ('tag', 'I', 'C', 2, ('char', 'UTF8String'))),
    ('any',),
]


# (iv) contents of one primitive element, exhaustively over octets that are structural *inside* contents (REAL
# format / exponent-length octets, BIT STRING pad counts, OID continuation bits, sign boundaries, decimal REAL and
# time characters), for every leaf tag, primitive and (string types) constructed
LEAF_TAGS = [(0x01, ('bool',)), (0x02, ('int',)), (0x03, ('bits',)), (0x04, ('octs',)), (0x05, ('null',)), (0x06, ('oid',)),
             (0x09, ('real',)), (0x0a, ('enum', (('e0', 0), ('e1', 1)))), (0x0c, ('char', 'UTF8String')),
             (0x13, ('char', 'PrintableString')), (0x17, ('useful', 'UTCTime')), (0x18, ('useful', 'GeneralizedTime')),
             (0x1e, ('char', 'BMPString')), (0x1c, ('char', 'UniversalString')),
             (0x23, ('bits',)), (0x24, ('octs',)), (0x2c, ('char', 'UTF8String'))]
CONTENT_ALPHABET = [0x00, 0x01, 0x02, 0x03, 0x04, 0x07, 0x08, 0x09, 0x40, 0x41, 0x42, 0x43, 0x7f, 0x80, 0x81, 0x82, 0x83,
                    0xbf, 0xc0, 0xff, 0x30, 0x2e, 0x45, 0x2b, 0x2d, 0x20]


def _sized_seqof_real():
    from pyasn1.type import constraint
    return univ.SequenceOf(componentType=univ.Real()).subtype(subtypeSpec=constraint.ValueSizeConstraint(2, 3))


def _rec_default_real():
    from pyasn1.type import namedtype
    return univ.Sequence(componentType=namedtype.NamedTypes(
        namedtype.DefaultedNamedType('r', univ.Real(0)), namedtype.OptionalNamedType('n', univ.Integer())))


# guiding types outside the universe AST (constraints), named by a token in the case
CUSTOM_SPECS = {'SEQUENCE (SIZE (2..3)) OF REAL': _sized_seqof_real, 'SEQUENCE { r REAL DEFAULT 0, n INTEGER OPTIONAL }': _rec_default_real}
GUARD_FIRED = [0]
CPU_LIMIT = 20.0     # CPU seconds for ONE decoder call on an input of at most a few thousand octets (normal: milliseconds)


def huge_real_inputs():
    """REAL contents whose exponent field claims an astronomically large (or small) exponent, bare and inside the two
    containers above: decoding them is cheap, but anything that turns such a value into a float or prints it (a
    constraint error message, a DEFAULT comparison) must not do work proportional to the exponent's VALUE."""
    out = []
    for first in (0x80, 0xc0, 0xa0):
        for explen in (3, 4, 5, 8, 126):
            for lead in (0x7f, 0x01, 0x80):
                exp = bytes([lead]) + b'\xff' * (explen - 1)
                if explen <= 3:
                    head = bytes([first | (explen - 1)])
                else:
                    head = bytes([first | 3, explen])
                for mant in (b'\x01', b'\x00'):
                    content = head + exp + mant
                    if len(content) > 127:
                        continue
                    real = b'\x09' + bytes([len(content)]) + content
                    out.append(real)
                    if len(real) + 2 <= 127:
                        out.append(b'\x30' + bytes([len(real)]) + real)
                    if 2 * len(real) + 2 <= 127:
                        out.append(b'\x30' + bytes([2 * len(real)]) + real + real)
    return out


def _open_seq():
    from pyasn1.type import namedtype, opentype
    return univ.Sequence(componentType=namedtype.NamedTypes(
        namedtype.NamedType('id', univ.Integer()),
        namedtype.NamedType('blob', univ.Any(), openType=opentype.OpenType('id', {1: univ.Integer(), 2: univ.OctetString()}))))


def _rec(cls, *members):
    from pyasn1.type import namedtype
    return cls(componentType=namedtype.NamedTypes(*[
        (namedtype.OptionalNamedType if m[2:] == ('opt',) else namedtype.NamedType)(m[0], m[1]) for m in members]))


def _huge_specs():
    from pyasn1.type import constraint, namedtype, namedval
    return {
        'INTEGER (0..10)': univ.Integer().subtype(subtypeSpec=constraint.ValueRangeConstraint(0, 10)),
        'SEQUENCE (SIZE (2..3)) OF INTEGER': univ.SequenceOf(componentType=univ.Integer()).subtype(
            subtypeSpec=constraint.ValueSizeConstraint(2, 3)),
        'ENUMERATED { a(0), b(1) }': univ.Enumerated(namedValues=namedval.NamedValues(('a', 0), ('b', 1))),
        'BIT STRING (SIZE (1..8))': univ.BitString().subtype(subtypeSpec=constraint.ValueSizeConstraint(1, 8)),
        'OBJECT IDENTIFIER (1.3)': univ.ObjectIdentifier().subtype(subtypeSpec=constraint.SingleValueConstraint((1, 3))),
        'SEQUENCE { a INTEGER (0..10), b OCTET STRING OPTIONAL }': univ.Sequence(componentType=namedtype.NamedTypes(
            namedtype.NamedType('a', univ.Integer().subtype(subtypeSpec=constraint.ValueRangeConstraint(0, 10))),
            namedtype.OptionalNamedType('b', univ.OctetString()))),
        'OCTET STRING': univ.OctetString(),
        'SEQUENCE { a INTEGER }': _rec(univ.Sequence, ('a', univ.Integer())),
        'SEQUENCE { a INTEGER, b BOOLEAN OPTIONAL }': _rec(univ.Sequence, ('a', univ.Integer()), ('b', univ.Boolean(), 'opt')),
        'SET { a INTEGER, b BOOLEAN }': _rec(univ.Set, ('a', univ.Integer()), ('b', univ.Boolean())),
        'SEQUENCE { a ENUMERATED, b BIT STRING OPTIONAL, c OBJECT IDENTIFIER OPTIONAL, d REAL OPTIONAL }': _rec(
            univ.Sequence, ('a', univ.Enumerated()), ('b', univ.BitString(), 'opt'), ('c', univ.ObjectIdentifier(), 'opt'),
            ('d', univ.Real(), 'opt')),
        'SET { b BIT STRING OPTIONAL, c OBJECT IDENTIFIER OPTIONAL, d REAL OPTIONAL, e BOOLEAN }': _rec(
            univ.Set, ('b', univ.BitString(), 'opt'), ('c', univ.ObjectIdentifier(), 'opt'), ('d', univ.Real(), 'opt'),
            ('e', univ.Boolean())),
        'SEQUENCE OF INTEGER': univ.SequenceOf(componentType=univ.Integer()),
        'SET OF OBJECT IDENTIFIER': univ.SetOf(componentType=univ.ObjectIdentifier()),
        'CHOICE { a INTEGER, c OBJECT IDENTIFIER, e BOOLEAN }': univ.Choice(componentType=namedtype.NamedTypes(
            namedtype.NamedType('a', univ.Integer()), namedtype.NamedType('c', univ.ObjectIdentifier()),
            namedtype.NamedType('e', univ.Boolean()))),
        'SEQUENCE { id INTEGER, blob ANY DEFINED BY id } resolved': (_open_seq(), {'decodeOpenTypes': True}),
    }


for _name, _obj in _huge_specs().items():
    CUSTOM_SPECS[_name] = (lambda name=_name: _huge_specs()[name])


def huge_integer_inputs():
    """Well-formed and damaged encodings in which one integer-valued field (INTEGER / ENUMERATED contents, a tag
    number, a BIT STRING, an OID arc, a REAL mantissa) is longer than the 4300 decimal digits beyond which CPython
    refuses int -> str conversion by default: whatever the decoder prints about them must not turn into ValueError."""
    def tlv(tag, content):
        n = len(content)
        ln = bytes([n]) if n < 128 else bytes([0x80 | len(n.to_bytes((n.bit_length() + 7) // 8, 'big'))]) + n.to_bytes((n.bit_length() + 7) // 8, 'big')
        return tag + ln + content
    big = 1900
    pos = b'\x7f' + b'\xff' * (big - 1)
    neg = b'\x80' + b'\x00' * (big - 1)
    out = []
    for c in (pos, neg):
        out.append(tlv(b'\x02', c))
        out.append(tlv(b'\x0a', c))
        out.append(tlv(b'\x30', tlv(b'\x02', c)))
        out.append(tlv(b'\x30', tlv(b'\x02', c) + tlv(b'\x02', b'\x01')))
    longtag = b'\x9f' + b'\xff' * 2100 + b'\x7f'
    out.append(tlv(longtag, b'\x01'))
    out.append(tlv(b'\xbf' + b'\xff' * 2100 + b'\x7f', tlv(b'\x02', b'\x01')))
    out.append(tlv(b'\x30', tlv(longtag, b'\x01')))
    out.append(tlv(b'\x03', b'\x00' + b'\xff' * big))
    out.append(tlv(b'\x03', b'\x07' + b'\xff' * (big - 1) + b'\x80'))
    out.append(tlv(b'\x06', b'\x2b' + b'\xff' * 2100 + b'\x7f'))
    out.append(tlv(b'\x09', b'\x80\x00' + b'\x7f' + b'\xff' * (big - 1)))
    out.append(tlv(b'\x30', tlv(b'\x09', b'\x80\x00' + b'\x7f' + b'\xff' * (big - 1))))
    # the huge element as a member that was already accepted when something else goes wrong with its container (one
    # member too many, a member of the wrong type, a repeated member, a member missing, no end-of-octets), in both
    # length forms: whatever the decoder then says about the container must not need the element printed
    leaves = [tlv(b'\x02', pos), tlv(b'\x02', neg), tlv(b'\x0a', pos), tlv(b'\x03', b'\x00' + b'\xff' * big),
              tlv(b'\x06', b'\x2b' + b'\xff' * 2100 + b'\x7f'), tlv(b'\x09', b'\x80\x00' + b'\x7f' + b'\xff' * (big - 1))]
    small, boolean = b'\x02\x01\x01', b'\x01\x01\xff'
    for h in leaves:
        for ctag in (b'\x30', b'\x31'):
            for contents in (h, h + small, h + h, h + boolean, boolean + h, h + boolean + small, h + b'\x04\x00', small + h,
                             h + boolean + boolean, h + b'\x05'):
                out.append(tlv(ctag, contents))
                out.append(ctag + b'\x80' + contents + b'\x00\x00')
                out.append(ctag + b'\x80' + contents)
    return out


BLOB_SUBSTITUTES = [b'\x00\x00', b'\x00\x00\x00\x00', b'', b'\x00', b'\x04', b'\x04\x80', b'\x04\x80\x00\x00', b'\x24\x80\x00\x00',
                    b'\x24\x80', b'\x05\x00', b'\x30\x80\x00\x00', b'\x30\x00', b'\x04\x01', b'\x02\x00', b'\x00\x01\x00',
                    b'\x04\x01\x41\x00\x00', b'\x00\x00\x04\x01\x41', b'\x1f']
_BLOB_INPUTS = []


def opentype_blob_inputs():
    """-> [(octets, case token, schema)]: containers with an open-type field (c18's declarations: SEQUENCE / SET,
    INTEGER / OID governor, single / SEQUENCE OF / SET OF, untagged / IMPLICIT / EXPLICIT ANY), assembled by hand in
    every mix of definite and indefinite length forms per level (container, SEQUENCE OF / SET OF field, tag wrapper of
    the ANY - the library's encoder only writes one form throughout), the open-type octets being each of
    BLOB_SUBSTITUTES (alone, and after a good element)"""
    if _BLOB_INPUTS:
        return _BLOB_INPUTS
    from . import c18

    def tlv(tag, content, indef=False):
        if indef:
            return tag + b'\x80' + content + b'\x00\x00'
        n = len(content)
        return tag + (bytes([n]) if n < 128 else b'\x81' + bytes([n])) + content

    for container in ('seq', 'set'):
        for govkind in ('int', 'oid'):
            for shape in ('single', 'seqof', 'setof'):
                for anytag in ('untagged', 'implicit', 'explicit'):
                    if container == 'set' and anytag == 'untagged':
                        continue
                    tmap = ((c18.gov_value(govkind, 0), ('octs',)), (c18.gov_value(govkind, 1), ('seq', (('a', ('int',), 'req', None),))))
                    try:
                        sch = c18.make_schema(container, govkind, shape, anytag, tmap)
                    except Exception:
                        continue
                    token = ('opentype', container, govkind, shape, anytag, tmap)
                    wrappers = [None] if anytag == 'untagged' else [(b'\xdf\x87\x6a', False), (b'\xff\x87\x6a', False), (b'\xff\x87\x6a', True)]
                    for cform, fform, wrap in itertools.product((False, True), (False, True) if shape != 'single' else (False,), wrappers):
                        for si, sub in enumerate(BLOB_SUBSTITUTES):
                            for lead, gi in itertools.product((False,) if shape == 'single' or si > 6 else (False, True), (0, 1)):
                                gov = b'\xdf\x87\x68' + ((b'\x01' + bytes([gi + 1])) if govkind == 'int' else (b'\x03\x2b\x06' + bytes([gi + 1])))
                                el = lambda x: x if wrap is None else tlv(wrap[0], x, wrap[1])
                                if shape == 'single':
                                    field = el(sub)
                                else:
                                    field = tlv(b'\x30' if shape == 'seqof' else b'\x31',
                                                (el(b'\x04\x01\x41') if lead else b'') + el(sub), fform)
                                _BLOB_INPUTS.append((tlv(b'\x30' if container == 'seq' else b'\x31', gov + field, cform), token, sch))
    return _BLOB_INPUTS


CHILD = r"""
import io, sys
sys.path.insert(0, sys.argv[1])
from pyasn1.codec.ber import decoder as ber
from pyasn1.codec.cer import decoder as cer
from pyasn1.codec.der import decoder as der
from pyasn1 import error
data = bytes.fromhex(sys.argv[2])
out = []
for name, mod in (('ber', ber), ('cer', cer), ('der', der)):
    for mode in ('oneshot', 'stream'):
        try:
            if mode == 'oneshot':
                mod.decode(data)
                out.append('ok')
            else:
                n = 0
                for x in mod.StreamingDecoder(io.BytesIO(data)):
                    n += 1
                    if isinstance(x, error.SubstrateUnderrunError) or n > 50:
                        break
                out.append('ok')
        except error.PyAsn1Error:
            out.append('lib')
        except BaseException as e:
            out.append('leak:' + type(e).__name__)
print(' '.join(out))
"""


def abort_prone_inputs():
    """Deep nests (by header, whatever the lengths say) with something at the bottom that makes the decoder build an
    error while it stands there: a cut long-form length, a cut tag, an overrun, an unknown tag, nothing.  On CPython
    3.12 the nested generators of the decoder use the C stack level by level, and an exception raised at the bottom of
    some 250 levels, while the one-shot wrapper abandons the suspended generators, ends in `Fatal Python error: Cannot
    recover from stack overflow` - no exception at all, so these inputs are decoded in a child interpreter."""
    out = []
    for hdr in (b'\x30\x30', b'\x30\x80', b'\xa0\x7f', b'\x31\x30', b'\x24\x30'):
        for n in (120, 258, 300, 420):
            for tail in (b'\x04\x84\x00\x00\x00', b'\x04\x84\x00\x00', b'\x1f', b'\x04\x82', b'', b'\x04\x01\x00', b'\xdf\x87'):
                out.append(hdr * n + tail)
                out.append(b'\xac\x80\x04\x01\xb1' + hdr * n + tail)
    return out


def check_in_child(res, data):
    import subprocess
    case = ('c08-child', data.hex())
    feats = {'origin:abort-prone', 'child-interpreter'}
    res.case(U.case_hash(data, 'child'), True)
    try:
        p = subprocess.run([sys.executable, '-c', CHILD, H.REPO, data.hex()], capture_output=True, text=True, timeout=120)
    except subprocess.TimeoutExpired:
        res.see('child:timeout')
        if len(res.inconclusive) < 3:
            res.inconclusive.append('child interpreter timed out on %s' % data.hex()[:80])
        return
    if p.returncode < 0 or 'Fatal Python error' in p.stderr:
        res.witness('child:interpreter-aborted', feats, case, p.stderr[:400])
        return
    if p.returncode != 0:
        res.see('child:harness-error')
        if len(res.inconclusive) < 3:
            res.inconclusive.append('child interpreter failed: ' + p.stderr[-300:])
        return
    for word in p.stdout.split():
        res.see('child:' + word.split(':')[0])
        if word.startswith('leak:'):
            res.witness('child:' + word, feats, case, p.stdout)


class CountingBytesIO(io.BytesIO):
    reads = 0

    def read(self, n=-1):
        self.reads += 1
        return io.BytesIO.read(self, n)


def plan(tier, seed):
    n = 16
    per_mut = 9000 if tier == 'quick' else 150000
    return [{'shard': i, 'n': per_mut, 'nshards': n} for i in range(n)]


def holds_sentinel(obj, depth=0):
    """Is the end-of-octets marker object (an internal sentinel, not a value of any type) the result or a member of it?"""
    from pyasn1.codec.ber import eoo
    if obj is eoo.endOfOctets or isinstance(obj, eoo.EndOfOctets):
        return True
    if depth > 6 or not isinstance(obj, asn1base.ConstructedAsn1Type):
        return False
    try:
        if isinstance(obj, univ.Choice):
            return holds_sentinel(obj.getComponent(), depth + 1)
        n = len(obj) if not (isinstance(obj, univ.SequenceAndSetBase) and len(obj.componentType)) else len(obj.componentType)
        for i in range(min(n, 50)):
            if holds_sentinel(obj.getComponentByPosition(i, default=None, instantiate=False), depth + 1):
                return True
    except Exception:
        return False
    return False


def shape_problem(obj):
    if obj is None:
        return 'returned-None'
    if not isinstance(obj, asn1base.Asn1Item):
        return 'returned-non-asn1:' + type(obj).__name__
    try:
        if not obj.isValue:
            return 'returned-placeholder'
    except Exception as e:
        return 'isValue-raised:' + type(e).__name__
    if holds_sentinel(obj):
        return 'returned-the-end-of-octets-sentinel'
    return None


INT_STR_LIMIT = 4300      # CPython's default sys.get_int_max_str_digits() since 3.11 (the harness itself runs with 0)


def run_input(res, sc, data, T, schema, origin, strlimit=False):
    feats0 = {'origin:' + origin, 'spec:' + ('none' if T is None else 'given')}
    dkw = {}
    if isinstance(schema, tuple):
        schema, dkw = schema           # a guiding type that comes with decoder options (open-type resolution)
        feats0.add('decoder-options:' + ','.join(sorted(dkw)))
    if strlimit:
        feats0 |= {'huge-integer-field', 'interpreter-int-str-limit'}
    n = len(data)
    for dname, dec in DEC:
        for mode in ('oneshot', 'stream'):
            case = ('c08', data.hex(), dname, mode, T)
            feats = feats0 | {'decoder:' + dname, 'mode:' + mode}
            res.case(U.case_hash(data, dname, mode, T), True)
            stream = CountingBytesIO(data)
            sc.reset(STEP_A + STEP_B * n)
            outcome = None
            # (after the bound was exceeded twice in this shard the point is made: later calls get 1 CPU second, so
            # that a tree with such a defect still finishes and reports instead of running into the watchdog)
            guard = M.cpu_guard(CPU_LIMIT if GUARD_FIRED[0] < 2 else 1.0)
            guard.__enter__()
            try:
                if strlimit:
                    # the interpreter's default: int <-> str conversions beyond 4300 digits raise ValueError
                    sys.set_int_max_str_digits(INT_STR_LIMIT)
                if mode == 'oneshot':
                    r = dec.decode(stream, asn1Spec=schema, **dkw) if schema is not None else dec.decode(stream)
                    if not (isinstance(r, tuple) and len(r) == 2):
                        outcome = 'bad-shape'
                        res.witness('oneshot:returned-non-tuple', feats, case, repr(r)[:100])
                    else:
                        sp = shape_problem(r[0])
                        if sp:
                            outcome = sp
                            res.witness('oneshot:' + sp, feats, case, repr(r[0])[:200])
                        elif not isinstance(r[1], bytes):
                            outcome = 'bad-rest'
                            res.witness('oneshot:remainder-not-bytes', feats, case, repr(r[1])[:100])
                        else:
                            outcome = 'ok'
                else:
                    sd = dec.StreamingDecoder(stream, asn1Spec=schema, **dkw) if schema is not None else dec.StreamingDecoder(stream)
                    k = 0
                    outcome = 'ok'
                    for x in sd:
                        if isinstance(x, error.SubstrateUnderrunError):
                            outcome = 'underrun-yielded'
                            break
                        sp = shape_problem(x)
                        if sp:
                            outcome = sp
                            res.witness('stream:' + sp, feats, case, repr(x)[:200])
                            break
                        k += 1
                        if k > n + 2:
                            outcome = 'too-many-objects'
                            res.witness('stream:more-objects-than-octets', feats, case, k)
                            break
            except M.CpuBudgetExceeded:
                sys.set_int_max_str_digits(0)
                GUARD_FIRED[0] += 1
                outcome = 'cpu-budget'
                res.witness('cpu-time-bound-exceeded', feats, case,
                            'one %s call on %d octets burnt more than %s CPU seconds' % (mode, n, CPU_LIMIT))
            except M.StepCounter.StepBudgetExceeded:
                outcome = 'step-budget'
                res.witness('step-budget-exceeded', feats, case, 'more than %d steps for %d octets' % (STEP_A + STEP_B * n, n))
            except RecursionError as ex:
                outcome = 'leak'
                res.witness('%s:leak:RecursionError' % mode, feats, case, 'depth-bounded input')
            except Exception as ex:
                sys.set_int_max_str_digits(0)
                c = H.classify_exception(ex)
                if isinstance(c, tuple):
                    outcome = 'leak'
                    if (strlimit and type(ex) is ValueError and str(ex).startswith('Exceeds the limit (%d digits) for integer string conversion' % INT_STR_LIMIT)):
                        # one mechanism, many sites: an error message (or repr) formats an integer taken from the input
                        outcome = 'leak-int-str-limit'
                        res.see_in('int-str-limit-leak-sites', c[1])
                        res.witness('%s:leak:ValueError:int-str-conversion-limit' % mode, feats, case, ex)
                    else:
                        res.witness('%s:leak:%s' % (mode, c[1]), feats, case, ex)
                else:
                    outcome = c
            finally:
                sys.set_int_max_str_digits(0)
                guard.__exit__(None, None, None)
                steps = sc.count
                sc.budget = None
            res.see('outcome:%s:%s:%s' % (dname, mode, outcome))
            res.maximum('max-steps-per-octet', round(steps / float(max(1, n)), 1))
            res.maximum('max-steps', steps)
            if stream.reads > READ_A + READ_B * n:
                res.witness('read-budget-exceeded', feats, case, '%d reads for %d octets' % (stream.reads, n))
            res.maximum('max-reads-per-octet', round(stream.reads / float(max(1, n)), 1))


def _tlv(tag, content):
    n = len(content)
    if n < 128:
        return tag + bytes([n]) + content
    k = (n.bit_length() + 7) // 8
    return tag + bytes([0x80 | k]) + n.to_bytes(k, 'big') + content


# name -> (function N -> bytes, guiding type token or None)
SCALING = [
    ('sequence-of-n-integers-schemaless', lambda n: _tlv(b'\x30', b'\x02\x01\x05' * n), None),
    ('sequence-one-boolean-then-n-integers-schemaless', lambda n: _tlv(b'\x30', b'\x01\x01\xff' + b'\x02\x01\x05' * n), None),
    ('set-of-n-integers-schemaless', lambda n: _tlv(b'\x31', b'\x02\x01\x05' * n), None),
    ('indefinite-sequence-of-n-integers-schemaless', lambda n: b'\x30\x80' + b'\x02\x01\x05' * n + b'\x00\x00', None),
    ('sequence-of-n-integers-guided', lambda n: _tlv(b'\x30', b'\x02\x01\x05' * n), ('seqof', ('int',))),
    ('set-of-n-integers-guided', lambda n: _tlv(b'\x31', b'\x02\x01\x05' * n), ('setof', ('int',))),
    ('octet-string-of-n-fragments', lambda n: _tlv(b'\x24', b'\x04\x01\x61' * n), ('octs',)),
    ('indefinite-octet-string-of-n-fragments', lambda n: b'\x24\x80' + b'\x04\x01\x61' * n + b'\x00\x00', None),
    ('bit-string-of-n-fragments', lambda n: _tlv(b'\x23', b'\x03\x02\x00\x61' * n), ('bits',)),
    ('utf8-string-of-n-fragments', lambda n: _tlv(b'\x2c', b'\x04\x01\x61' * n), ('char', 'UTF8String')),
    ('n-alternating-types-schemaless', lambda n: _tlv(b'\x30', (b'\x02\x01\x05\x04\x01\x61') * (n // 2)), None),
    ('sequence-of-n-empty-sequences', lambda n: _tlv(b'\x30', b'\x30\x00' * n), None),
    ('n-top-level-items-in-a-stream', lambda n: b'\x02\x01\x05' * n, None),
    ('sequence-of-n-nulls-guided', lambda n: _tlv(b'\x30', b'\x05\x00' * n), ('seqof', ('null',))),
    ('oid-of-n-arcs', lambda n: _tlv(b'\x06', b'\x2b' + b'\x81\x01' * n), ('oid',)),
    ('sequence-of-n-explicitly-tagged-integers', lambda n: _tlv(b'\x30', b'\xa0\x03\x02\x01\x05' * n), None),
]
SCALING_N = 300


def check_scaling(res, sc, family):
    name, make, T = family
    schema = B.schema(T) if T is not None else None
    feats = {'origin:scaling', 'family:' + name, 'spec:' + ('none' if T is None else 'given')}
    for dname, dec in DEC:
        for mode in ('oneshot', 'stream'):
            steps = []
            for n in (SCALING_N, 2 * SCALING_N):
                data = make(n)
                sc.reset(40 * (STEP_A + STEP_B * len(data)))
                try:
                    if mode == 'oneshot':
                        dec.decode(io.BytesIO(data), asn1Spec=schema) if schema is not None else dec.decode(io.BytesIO(data))
                    else:
                        sd = dec.StreamingDecoder(io.BytesIO(data), asn1Spec=schema) if schema is not None else \
                            dec.StreamingDecoder(io.BytesIO(data))
                        for x in sd:
                            if isinstance(x, error.SubstrateUnderrunError):
                                break
                except error.PyAsn1Error:
                    pass
                except M.StepCounter.StepBudgetExceeded:
                    pass
                except Exception as ex:
                    c = H.classify_exception(ex)
                    if isinstance(c, tuple):
                        res.witness('%s:leak:%s' % (mode, c[1]), feats | {'decoder:' + dname, 'mode:' + mode},
                                    ('c08-scaling', name, dname, mode), ex)
                finally:
                    steps.append(sc.count)
                    sc.budget = None
            res.see('scaling-measurements')
            res.case(U.case_hash('scaling', name, dname, mode), True)
            ratio = steps[1] / float(max(1, steps[0]))
            res.maximum('max-step-growth-for-doubled-input', round(ratio, 2))
            # doubling the number of members doubles the input (plus two length octets): allow 2.6
            if steps[0] > 200 and ratio > 2.6:
                res.witness('step-count-grows-faster-than-the-input', feats | {'decoder:' + dname, 'mode:' + mode},
                            ('c08-scaling', name, dname, mode),
                            '%s: %d steps for N=%d, %d steps for N=%d (x%.2f)' % (name, steps[0], SCALING_N, steps[1], 2 * SCALING_N, ratio))


def grammar_tree(rng, depth, maxdepth):
    """Random TLV tree serialised with deliberately wrong lengths / tags now and then."""
    if depth >= maxdepth or rng.random() < 0.35:
        tag = rng.choice([0x01, 0x02, 0x03, 0x04, 0x05, 0x06, 0x09, 0x0a, 0x0c, 0x13, 0x17, 0x18, 0x1e, 0x80, 0x81,
                          0x1f, 0x00])
        content = bytes(rng.getrandbits(8) for _ in range(rng.choice([0, 0, 1, 1, 2, 3, 9])))
        cons = False
    else:
        tag = rng.choice([0x30, 0x31, 0x24, 0x23, 0xa0, 0xa1, 0x60, 0x3f, 0x2c, 0x29, 0x25])
        if rng.random() < 0.25:
            kids = [grammar_tree(rng, depth + 1, maxdepth)]      # chain: drives depth
        else:
            kids = [grammar_tree(rng, depth + 1, min(maxdepth, depth + 3)) for _ in range(rng.choice([0, 1, 2, 3]))]
        content = b''.join(kids)
        cons = True
    hdr = bytes([tag]) if tag != 0x3f and tag != 0x1f else bytes([tag, rng.choice([0x1f, 0x81, 0x7f]), 0x05][:rng.choice([2, 3])])
    r = rng.random()
    if cons and r < 0.3:
        return hdr + b'\x80' + content + (b'\x00\x00' if rng.random() < 0.8 else b'')
    ln = len(content)
    if r < 0.4:
        ln = max(0, ln + rng.choice([-2, -1, 1, 2, 5]))
    lb = R.length_min(ln) if rng.random() < 0.8 else R.length_padded(ln, rng.choice([1, 2]))
    return hdr + lb + content


def deep_chain(rng, depth):
    inner = rng.choice([b'\x05\x00', b'\x02\x01\x01', b'', b'\x04\x00', b'\x30\x00'])
    for _ in range(depth):
        tag = rng.choice([0x30, 0x31, 0xa0, 0x24, 0x23, 0x60])
        if rng.random() < 0.5:
            inner = bytes([tag]) + b'\x80' + inner + b'\x00\x00'
        else:
            inner = bytes([tag]) + R.length_min(len(inner)) + inner
    return inner


def run_shard(shard, tier, seed):
    res = H.Result(ID)
    rng = C.rng_for(seed, ID, shard['shard'])
    budget = C.Budget(tier, quick=45.0)
    sc = M.StepCounter()
    sc.start()
    specs = [(T, B.schema(T)) for T in FIXED_SPECS]
    try:
        # (i) exhaustive short strings, sharded by index
        maxlen = 3
        alphabet = ALPHABET if tier == 'quick' else ALPHABET
        idx = 0
        done_exhaustive = True
        for ln in range(0, maxlen + 1):
            for tup in itertools.product(alphabet, repeat=ln):
                idx += 1
                if idx % shard['nshards'] != shard['shard']:
                    continue
                data = bytes(tup)
                run_input(res, sc, data, None, None, 'exhaustive')
                spec_choices = specs if tier == 'thorough' else [specs[idx // shard['nshards'] % len(specs)]]
                for T, sch in spec_choices:
                    run_input(res, sc, data, T, sch, 'exhaustive')
                res.see('exhaustive-strings')
            if budget.expired():
                done_exhaustive = False
                break
        if tier == 'thorough' and done_exhaustive:
            # length 4 over a reduced 16-symbol alphabet
            small = [0x00, 0x01, 0x02, 0x03, 0x04, 0x05, 0x06, 0x09, 0x24, 0x30, 0x31, 0x80, 0x81, 0xa0, 0xbf, 0xff]
            for tup in itertools.product(small, repeat=4):
                idx += 1
                if idx % shard['nshards'] != shard['shard']:
                    continue
                run_input(res, sc, bytes(tup), None, None, 'exhaustive4')
                T, sch = specs[idx // shard['nshards'] % len(specs)]
                run_input(res, sc, bytes(tup), T, sch, 'exhaustive4')
                res.see('exhaustive-strings-len4')
        if done_exhaustive:
            res.see('exhaustive-shards-completed')
        # (iv) leaf contents
        leaf_specs = [(tg, T, B.schema(T)) for tg, T in LEAF_TAGS]
        budget_leaf = C.Budget(tier, quick=25.0, thorough=900.0)
        leaf_done = True
        for ln in range(0, (3 if tier == 'quick' else 4) + 1):
            for tup in itertools.product(CONTENT_ALPHABET, repeat=ln):
                idx += 1
                if idx % shard['nshards'] != shard['shard']:
                    continue
                content = bytes(tup)
                for tg, T, sch in leaf_specs:
                    if ln == (3 if tier == 'quick' else 4) and tg not in (0x09, 0x06, 0x03, 0x23, 0x18):
                        continue
                    data = bytes([tg, ln]) + content
                    run_input(res, sc, data, None, None, 'leaf-contents')
                    run_input(res, sc, data, T, sch, 'leaf-contents')
                    res.see('leaf-content-strings')
            if budget_leaf.expired():
                leaf_done = False
                break
        if leaf_done:
            res.see('leaf-content-shards-completed')
        # (v) REALs with astronomically large exponents, bare and inside constrained / defaulted containers
        customs = [(name, mk()) for name, mk in sorted(CUSTOM_SPECS.items())]
        for j, data in enumerate(huge_real_inputs()):
            if j % shard['nshards'] != shard['shard']:
                continue
            run_input(res, sc, data, None, None, 'huge-real')
            run_input(res, sc, data, ('real',), B.schema(('real',)), 'huge-real')
            for name, sch in customs:
                run_input(res, sc, data, name, sch, 'huge-real')
            res.see('huge-real-inputs')
        # (vi) integer-valued fields beyond 4300 decimal digits, decoded under the interpreter's default int -> str limit
        hspecs = [(name, CUSTOM_SPECS[name]()) for name in sorted(_huge_specs())]
        for j, data in enumerate(huge_integer_inputs()):
            if j % shard['nshards'] != shard['shard']:
                continue
            run_input(res, sc, data, None, None, 'huge-integer', strlimit=True)
            for name, sch in hspecs:
                run_input(res, sc, data, name, sch, 'huge-integer', strlimit=True)
            res.see('huge-integer-inputs')
        # (viii) flat runs of constructed headers whose declared length covers just the next header: read with respect
        # for the lengths these strings are nested two deep (the inner element overruns its container); a decoder that
        # descends before checking recurses once per header
        flat = []
        for hdr in (b'\xa0\x02', b'\x30\x02', b'\x31\x02', b'\x24\x02', b'\x23\x02', b'\xa0\x00', b'\x30\x00\xa0\x02',
                    b'\xbf\x1f\x03', b'\x30\x81\x03'):
            for n in (150, 400, 700, 1400):
                flat.append(hdr * n)
        for j, data in enumerate(flat):
            if j % shard['nshards'] != shard['shard']:
                continue
            run_input(res, sc, data, None, None, 'flat-header-run')
            T_, sch_ = specs[j % len(specs)]
            run_input(res, sc, data, T_, sch_, 'flat-header-run')
            res.see('flat-header-runs')
        # (ix) an end-of-octets marker where a definite-length element expects its contents
        eoo_in = [b'\xa0\x02\x00\x00', b'\x30\x04\xa0\x02\x00\x00', b'\xa0\x04\xa1\x02\x00\x00', b'\x30\x80\xa0\x02\x00\x00\x00\x00',
                  b'\x24\x02\x00\x00', b'\x30\x02\x00\x00', b'\x31\x02\x00\x00', b'\x23\x02\x00\x00', b'\xbf\x1f\x02\x00\x00',
                  b'\x30\x06\x02\x01\x01\xa0\x02\x00\x00', b'\x31\x80\xa0\x02\x00\x00\x00\x00', b'\xa0\x03\x00\x00\x00', b'\x60\x02\x00\x00']
        from pyasn1.type import namedtype as _nt, tag as _tag
        exp_int = univ.Integer().subtype(explicitTag=_tag.Tag(_tag.tagClassContext, _tag.tagFormatConstructed, 0))
        CUSTOM_SPECS.setdefault('[0] EXPLICIT INTEGER', lambda: univ.Integer().subtype(
            explicitTag=_tag.Tag(_tag.tagClassContext, _tag.tagFormatConstructed, 0)))
        CUSTOM_SPECS.setdefault('SEQUENCE { a [0] EXPLICIT INTEGER }', lambda: univ.Sequence(componentType=_nt.NamedTypes(
            _nt.NamedType('a', univ.Integer().subtype(explicitTag=_tag.Tag(_tag.tagClassContext, _tag.tagFormatConstructed, 0))))))
        for j, data in enumerate(eoo_in):
            if j % shard['nshards'] != shard['shard']:
                continue
            run_input(res, sc, data, None, None, 'eoo-inside-definite')
            for name in ('[0] EXPLICIT INTEGER', 'SEQUENCE { a [0] EXPLICIT INTEGER }'):
                run_input(res, sc, data, name, CUSTOM_SPECS[name](), 'eoo-inside-definite')
            res.see('eoo-inside-definite-inputs')
        # (xi) open-type fields whose octets are not one well-formed element: an end-of-octets marker, nothing, a cut
        # header, an element of another type, an indefinite-length element without its end - inside definite and
        # indefinite containers, every declaration of the open-type field, resolution switched on
        for j, (data, token, sch) in enumerate(opentype_blob_inputs()):
            if j % shard['nshards'] != shard['shard']:
                continue
            run_input(res, sc, data, token, (sch, {'decodeOpenTypes': True}), 'open-type-blob')
            res.see('open-type-blob-inputs')
        # (xii) deep nests with an error at the bottom, in a child interpreter (an abort is not an exception)
        for j, data in enumerate(abort_prone_inputs()):
            if j % shard['nshards'] != shard['shard'] or (tier == 'quick' and (j // shard['nshards']) % 3):
                continue
            check_in_child(res, data)
            res.see('abort-prone-inputs')
        # (x) growth of the step count: the same shape of input at N and 2N members must not cost much more than
        # twice the steps (a bound "proportional to the input size" is a statement about growth; the fixed budget
        # A + B*|input| has a generous B and would let quadratic work through at these sizes)
        if shard['shard'] < len(SCALING):
            check_scaling(res, sc, SCALING[shard['shard']])
        budget = C.Budget(tier, quick=40.0)
        # (ii) mutated encodings and (iii) grammar trees
        for i in range(shard['n']):
            if budget.expired(res):
                break
            try:
                r = rng.random()
                if rng.random() < 0.12:
                    # guiding types with subtype constraints (C10's generator): valid encodings, encodings of
                    # neighbour values that violate one constraint or lack a mandatory member, and mutations of both -
                    # what a constraint check raises on its way out of the decoder must be a library error too
                    from . import c10
                    mc = c10.make_case(rng, tier)
                    if mc is None:
                        continue
                    Tc, vc, cons = mc
                    try:
                        sch = c10.cschema(Tc, cons)
                        inputs = [R.der(Tc, vc), R.ber_variant(Tc, vc, rng)[0]]
                        bv = c10.break_value(rng, Tc, vc, cons)
                        if bv is not None:
                            inputs.append(R.der(Tc, bv[0]))
                            inputs.append(R.ber_variant(Tc, bv[0], rng)[0])
                        dm = c10.drop_mandatory(rng, Tc, vc)
                        if dm is not None:
                            inputs.append(R.der(Tc, dm))
                    except Exception:
                        continue
                    inputs += [C.mutate(rng, x)[1] for x in inputs[:3]]
                    token = ('constrained', Tc, tuple(sorted(cons.items())))
                    for data in inputs:
                        if len(data) <= 1500:
                            run_input(res, sc, data, token, sch, 'constrained-type')
                    res.see('constrained-type-cases')
                    continue
                if rng.random() < 0.06:
                    # guiding types with an open-type field, resolution switched on: valid encodings (every governing
                    # value of the map, and one outside it) and mutations of them
                    from . import c12, c18
                    oc = c12.opentype_case(rng, tier)
                    if oc is None:
                        continue
                    _, container, govkind, shape, anytag, tmap, vals, cname = oc
                    enc, ekw = c18.CODECS[cname][0], c18.CODECS[cname][1]
                    try:
                        sch = c18.make_schema(container, govkind, shape, anytag, tmap)
                        encs = []
                        for (g, Tin), vv in zip(tmap, vals):
                            val = sch.clone()
                            val['gov'] = g
                            if shape == 'single':
                                val['blob'] = B.value(Tin, vv)
                            else:
                                val['blob'].clear()
                                val['blob'].append(B.value(Tin, vv))
                            encs.append(enc(val, **ekw))
                    except Exception:
                        continue
                    token = ('opentype', container, govkind, shape, anytag, tmap)
                    for e in encs:
                        for data in (e, C.mutate(rng, e)[1], C.mutate(rng, e)[1]):
                            if len(data) <= 1500:
                                run_input(res, sc, data, token, (sch, {'decodeOpenTypes': True}), 'open-type')
                    res.see('open-type-cases')
                    continue
                if r < 0.62:
                    T, v = C.gen_case(rng, tier, any_maker=R.ber_any_maker)
                    e = R.ber_variant(T, v, rng)[0] if rng.random() < 0.5 else \
                        (R.cer(T, v) if rng.random() < 0.5 else R.der(T, v))
                    if len(e) > 1500:
                        continue
                    data = e
                    for _ in range(rng.choice([1, 1, 2, 3])):
                        kind, data = C.mutate(rng, data)
                    origin = 'mutated'
                elif r < 0.9:
                    data = grammar_tree(rng, 0, rng.choice([3, 6, 12, 40]))
                    if len(data) > 3000:
                        continue
                    T = None
                    origin = 'grammar'
                else:
                    data = deep_chain(rng, rng.choice([10, 20, 40]))
                    T = None
                    origin = 'deep'
                which = rng.random()
                if T is not None and which < 0.5:
                    try:
                        sch = B.schema(T)
                    except Exception:
                        continue
                    run_input(res, sc, data, T, sch, origin)
                elif which < 0.75:
                    run_input(res, sc, data, None, None, origin)
                else:
                    T2, _ = C.gen_case(rng, tier)
                    try:
                        sch = B.schema(T2)
                    except Exception:
                        continue
                    run_input(res, sc, data, T2, sch, origin + '-unrelated-type')
                if len(res.samples) < 4:
                    res.sample({'input_hex': data.hex()[:200], 'origin': origin,
                                'type': U.show_type(T)[:200] if T else None})
            except Exception:
                res.see('harness:error')
                if len(res.inconclusive) < 3:
                    res.inconclusive.append('harness error: ' + H.fmt_exc())
    finally:
        sc.stop()
    return res


def replay(case):
    res = H.Result(ID)
    if case[0] == 'c08-child':
        check_in_child(res, bytes.fromhex(case[1]))
        return res
    if case[0] == 'c08-scaling':
        sc = M.StepCounter()
        sc.start()
        try:
            check_scaling(res, sc, [f for f in SCALING if f[0] == case[1]][0])
        finally:
            sc.stop()
        return res
    _, hexdata, dname, mode, T = case
    sc = M.StepCounter()
    sc.start()
    try:
        if isinstance(T, (tuple, list)) and T and T[0] == 'opentype':
            from . import c18
            schema = (c18.make_schema(*T[1:6]), {'decodeOpenTypes': True})
        elif isinstance(T, (tuple, list)) and T and T[0] == 'constrained':
            from . import c10
            schema = c10.cschema(T[1], dict(T[2]))
        else:
            schema = None if T is None else (CUSTOM_SPECS[T]() if isinstance(T, str) else B.schema(T))
        data = bytes.fromhex(hexdata)
        run_input(res, sc, data, T, schema, 'replay', strlimit=data in huge_integer_inputs())
    finally:
        sc.stop()
    res.witnesses = [w for w in res.witnesses if ("'%s', '%s'" % (dname, mode)) in w['case']]
    return res


def finish_coverage(cov, m, tier):
    cov['exhaustive'] = False
    cov['exhaustive_subspace'] = ('all %d byte strings of length <= 3 over the %d-octet structural alphabet were decoded by '
                                  'every decoder in both modes%s' % (
                                      m['obs'].get('exhaustive-strings', 0), len(ALPHABET),
                                      '' if m['obs'].get('exhaustive-shards-completed', 0) == 16 else
                                      ' (NOT complete: time budget ended a shard)'))
