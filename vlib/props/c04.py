"""C04 DER/CER bytes depend only on the abstract value, not on how it was built (DESIGN 4/C04)."""
from pyasn1.codec.ber import decoder as ber_decoder
from pyasn1.codec.ber import encoder as ber_encoder
from pyasn1.codec.cer import decoder as cer_decoder
from pyasn1.codec.cer import encoder as cer_encoder
from pyasn1.codec.der import decoder as der_decoder
from pyasn1.codec.der import encoder as der_encoder
from pyasn1.codec.native import encoder as native_encoder
from pyasn1.type import univ
from pyasn1 import error

from .. import universe as U
from .. import refx690 as R
from .. import build as B
from .. import harness as H
from . import common as C

ID = 'C04'
LEVEL = 'exploration'
TECHNIQUE = ('runtime monitoring over construction histories: several independently built objects with equal abstract '
             'content (checked by the abstraction function) are encoded with the real DER/CER encoders and their bytes '
             'compared pairwise; decode/re-encode fixpoint on the encoder\'s own output')
RULE = ('a case = (T, v) with a group of 4..8 histories reaching v: permuted assignment / insertion order, by name / by '
        'position / append / extend / setComponentByPosition, DEFAULT set explicitly or left out, '
        'clone(cloneValueFlag=True), decode of a random reference BER variant, each optionally preceded by read-only '
        'uses (BER/native encode, prettyPrint, str, repr, iteration, keys/values/items, in, ==, getComponentBy*); '
        'non-trivial = at least 3 distinct route kinds in the group; distinct = sha1 of (T, canon(v))')
ASSUMPTIONS = ['histories whose abstract content differs from v after the history ran (a read that changed the value) are '
               'left to C12/C19 and dropped from the group', 'universe legality rules']
KEY_FEATURES = ('codec', 'route')


def plan(tier, seed):
    return C.plan_counts(tier, 16 * 4800, 16 * 25000)


def readonly_uses(obj, rng, used):
    """Read-only operations of the quantifier; exceptions are swallowed (they are C19's business)."""
    ops = rng.sample(['ber', 'native', 'pretty', 'str', 'repr', 'iter', 'dict', 'in', 'eq', 'get', 'len', 'der', 'cer'],
                     rng.randint(1, 5))
    for op in ops:
        used.add('read:' + op)
        try:
            if op == 'ber':
                ber_encoder.encode(obj, defMode=rng.random() < 0.5)
            elif op == 'der':
                der_encoder.encode(obj)
            elif op == 'cer':
                cer_encoder.encode(obj)
            elif op == 'native':
                native_encoder.encode(obj)
            elif op == 'pretty':
                obj.prettyPrint()
            elif op == 'str':
                str(obj)
            elif op == 'repr':
                repr(obj)
            elif op == 'len':
                len(obj)
            elif op == 'iter':
                if isinstance(obj, (univ.SequenceOfAndSetOfBase, univ.SequenceAndSetBase)):
                    for x in obj:
                        pass
            elif op == 'dict':
                if isinstance(obj, univ.SequenceAndSetBase):
                    list(obj.keys())
                    list(obj.values())
                    list(obj.items())
            elif op == 'in':
                if isinstance(obj, univ.SequenceAndSetBase):
                    'f0' in obj
            elif op == 'eq':
                obj == obj
            elif op == 'get':
                if isinstance(obj, univ.SequenceOfAndSetOfBase) and len(obj):
                    obj[rng.randrange(len(obj))]
                elif isinstance(obj, univ.Choice):
                    obj.getComponent()
        except Exception:
            used.add('read-raised:' + op)


CONSTRUCTED_KINDS = ('seq', 'set', 'seqof', 'setof', 'choice')


def perturb(T, v, rng, o):
    """Another value of T with the same shape as v (same list lengths, no OPTIONAL member that v lacks), from which v
    can be reached by assignments alone."""
    Bt = U.base_of(T)
    k = Bt[0]
    if k in ('seq', 'set'):
        out = {}
        for name, ft, pres, dv in Bt[1]:
            if name not in v:
                continue
            if pres == 'opt' and rng.random() < 0.2:
                continue
            out[name] = perturb(ft, v[name], rng, o)
        return out
    if k in ('seqof', 'setof'):
        return [perturb(Bt[1], x, rng, o) for x in v]
    if k == 'choice':
        if len(Bt[1]) > 1 and rng.random() < 0.5:
            alt, at = rng.choice([a for a in Bt[1] if a[0] != v[0]])
            return (alt, U.gen_value(rng, at, o, small=True))
        return (v[0], perturb(dict(Bt[1])[v[0]], v[1], rng, o))
    if k == 'any' or rng.random() < 0.5:
        return v
    return U.gen_value(rng, T, o, small=True)


def reachable(T, v0, v):
    """Can a holder of v0 be turned into a holder of v by assignments alone (members cannot be taken away, lists
    cannot shrink)?"""
    Bt = U.base_of(T)
    k = Bt[0]
    if k in ('seq', 'set'):
        for name, ft, pres, dv in Bt[1]:
            if name in v0 and name not in v:
                return False
            if name in v0 and name in v and U.base_of(ft)[0] in ('seq', 'set', 'seqof', 'setof') \
                    and not reachable(ft, v0[name], v[name]):
                return False
        return True
    if k in ('seqof', 'setof'):
        return len(v0) == len(v) and all(
            U.base_of(Bt[1])[0] not in ('seq', 'set', 'seqof', 'setof') or reachable(Bt[1], a, b) for a, b in zip(v0, v))
    return True


def rework(obj, T, v0, v, rng):
    """Turn obj (holding v0) into a holder of v by in-place assignments, descending into members that are already
    there instead of replacing them wherever that is possible."""
    Bt = U.base_of(T)
    k = Bt[0]
    if k in ('seq', 'set'):
        for name, ft, pres, dv in Bt[1]:
            if name not in v:
                continue
            fk = U.base_of(ft)[0]
            if name in v0 and fk in CONSTRUCTED_KINDS and rng.random() < 0.75 and reachable(ft, v0[name], v[name]):
                rework(obj[name], ft, v0[name], v[name], rng)
            elif name not in v0 or U.canon(ft, v0[name]) != U.canon(ft, v[name]) or rng.random() < 0.3:
                sub = B.value(ft, v[name], sch=obj.componentType[name].asn1Object)
                if rng.random() < 0.5:
                    obj[name] = sub
                else:
                    obj.setComponentByPosition([f[0] for f in Bt[1]].index(name), sub)
    elif k in ('seqof', 'setof'):
        ek = U.base_of(Bt[1])[0]
        for i, x in enumerate(v):
            # (what position i holds is read back: a SET OF was filled in some other order, or decoded)
            x0 = B.absval(obj[i], Bt[1])
            if ek in CONSTRUCTED_KINDS and rng.random() < 0.75 and reachable(Bt[1], x0, x):
                rework(obj[i], Bt[1], x0, x, rng)
            elif U.canon(Bt[1], x0) != U.canon(Bt[1], x) or rng.random() < 0.3:
                obj[i] = B.value(Bt[1], x, sch=obj.componentType)
    elif k == 'choice':
        at = dict(Bt[1])[v[0]]
        if v0[0] == v[0] and U.base_of(at)[0] in CONSTRUCTED_KINDS and rng.random() < 0.75 and reachable(at, v0[1], v[1]):
            rework(obj.getComponent(), at, v0[1], v[1], rng)
        else:
            obj.setComponentByName(v[0], B.value(at, v[1], sch=obj.componentType[v[0]].asn1Object))


def make_history(bt, rng, kind, used):
    T, v = bt.T, bt.v
    if kind == 'route':
        r = B.Route(rng)
        obj = B.value(T, v, route=r)
        used.update('route:' + u for u in r.used)
    elif kind == 'clone':
        r = B.Route(rng)
        src = B.value(T, v, route=r)
        obj = src.clone(cloneValueFlag=True) if isinstance(src, (univ.SequenceOfAndSetOfBase, univ.SequenceAndSetBase)) \
            else src.clone()
        used.add('route:clone')
    elif kind == 'decode-variant':
        x, ch = R.ber_variant(T, v, rng)
        obj, rest = ber_decoder.decode(x, asn1Spec=bt.schema)
        used.add('route:decode-variant')
    elif kind == 'rework':
        # another value of the same shape is built (or decoded), used - encoded with every codec, printed, compared -
        # and then turned into v by assignments in place: whatever the earlier uses left on the object (memoised tags,
        # sort keys, encodings) describes a value it no longer holds
        o = C.opts_for('quick', rng)
        v0 = perturb(T, v, rng, o)
        if rng.random() < 0.3:
            obj, rest = ber_decoder.decode(R.ber_variant(T, v0, rng)[0], asn1Spec=bt.schema)
        else:
            obj = B.value(T, v0, route=B.Route(rng))
        readonly_uses(obj, rng, used)
        der_encoder.encode(obj)
        if rng.random() < 0.5:
            cer_encoder.encode(obj)
        v0 = B.absval(obj, T)       # (as the object holds it: SET OF members sit in the order they were stored)
        if not reachable(T, v0, v):
            raise ValueError('not reachable by assignments')
        rework(obj, T, v0, v, rng)
        used.add('route:rework')
    else:
        obj = B.value(T, v)
        used.add('route:plain')
    if rng.random() < 0.5:
        readonly_uses(obj, rng, used)
    return obj


def check_case(res, T, v, rng, bt=None):
    bt = bt or C.try_build(res, T, v)
    if bt is None:
        return
    feats0 = set(bt.feats)
    used = set()
    group = [('plain', bt.obj)]
    kinds = ['route', 'route', 'clone', 'decode-variant', 'route', 'clone', 'decode-variant']
    if U.base_of(T)[0] in CONSTRUCTED_KINDS:
        kinds += ['rework', 'rework', 'rework']
    for kind in rng.sample(kinds, rng.randint(3, 7)):
        try:
            obj = make_history(bt, rng, kind, used)
        except Exception as ex:
            res.see('history-build-raised:' + kind)
            res.see_in('history-build-errors', '%s:%s' % (kind, type(ex).__name__))
            continue
        # the history reaches the same abstract value by construction; reading it back through the public API
        # must agree (outside the zone of the pinned emptyable-optional finding, where reads and BER encoding
        # materialise an absent component), else the comparison below would silently lose this history
        try:
            if U.canon(T, B.absval(obj, T)) != bt.cv:
                if 'absent-optional-emptyable-record' in feats0:
                    # a read has left a placeholder for an absent OPTIONAL record without mandatory members, which
                    # the public API then shows as present-and-empty (pinned data-model limitation).  The property
                    # still speaks about this history - "after any number of prior read-only uses" - so its
                    # encodings ARE compared with the others; only the read-back cross-check is waived.
                    res.see('history-kept:placeholder-in-emptyable-optional-zone')
                else:
                    res.witness('history-reads-back-as-a-different-value:' + kind, feats0 | set(used),
                                ('c04', T, v, 'DER', 'plain', kind), 'routes %s' % sorted(used))
                    continue
        except B.NotAValue as ex:
            res.witness('history-reads-back-as-not-a-value:' + kind, feats0 | set(used),
                        ('c04', T, v, 'DER', 'plain', kind), '%s; routes %s' % (ex, sorted(used)))
            continue
        group.append((kind, obj))
    routes = set(u for u in used if u.startswith('route:'))
    res.case(U.case_hash(T, bt.cv), len(routes) >= 3)
    for u in used:
        res.see(u)
    res.see('groups')
    res.see('histories', len(group))
    for codec, enc, dec in (('DER', der_encoder.encode, der_decoder.decode), ('CER', cer_encoder.encode, cer_decoder.decode)):
        feats = feats0 | {'codec:' + codec}
        encs = []
        for kind, obj in group:
            try:
                encs.append((kind, enc(obj)))
            except Exception as ex:
                c = H.classify_exception(ex)
                res.see('%s-encode-raised:%s' % (codec.lower(), c if not isinstance(c, tuple) else 'leak'))
                encs = None
                break
        if not encs:
            continue
        first = encs[0]
        for kind, e in encs[1:]:
            res.see('pairs-compared:' + codec)
            if e != first[1]:
                res.witness('%s:bytes-differ-between-histories:%s-vs-%s' % (codec.lower(), first[0], kind),
                            feats | set(used), ('c04', T, v, codec, first[0], kind),
                            '%s: %s ; %s: %s' % (first[0], first[1].hex()[:300], kind, e.hex()[:300]))
                break
        else:
            res.see('groups-identical:' + codec)
        # decode / re-encode fixpoint on the encoder's own output (outside the zones of the pinned encoder
        # findings, whose output is not a decodable encoding of the value)
        e = first[1]
        try:
            want, zone = R.like_pyasn1_used(T, v, codec, emulate=C.EMULATE[codec])
            zone = zone - C.HARMLESS_FOR_ROUNDTRIP
        except R.EmuRaises as er:
            zone = {er.args[1]}
        if zone:
            for u in zone:
                res.see('fixpoint-skipped:in-zone:' + u)
                if e == want:
                    res.witness('%s:%s' % (codec.lower(), u), feats | set('emu:' + x for x in zone),
                                C.enc_case(T, v, codec, codec == 'DER', 0), e.hex()[:200])
            continue
        try:
            d, rest = dec(e, asn1Spec=bt.schema)
        except error.PyAsn1Error:
            res.see('fixpoint-skipped:own-output-not-decodable')   # C02's business (known encoder findings)
            continue
        except Exception:
            res.see('fixpoint-skipped:own-output-leak')
            continue
        try:
            e2 = enc(d)
        except Exception as ex:
            res.witness('%s:re-encode-raised' % codec.lower(), feats, ('c04-fix', T, v, codec), ex)
            continue
        res.see('fixpoints-checked:' + codec)
        if e2 != e or rest:
            res.witness('%s:re-encoding-differs' % codec.lower(), feats, ('c04-fix', T, v, codec),
                        'first %s second %s rest %s' % (e.hex()[:300], e2.hex()[:300], rest.hex()[:40]))
    if len(res.samples) < 4:
        res.sample(C.sample_of(T, v, histories=[k for k, _ in group], reads=sorted(u for u in used if u.startswith('read'))))


def run_shard(shard, tier, seed):
    res = H.Result(ID)
    rng = C.rng_for(seed, ID, shard['shard'])
    budget = C.Budget(tier)
    for i in range(shard['n']):
        if budget.expired(res):
            break
        T, v = C.gen_case(rng, tier)
        if i % 8 == 7:
            # a SET whose canonical member order hangs on which alternative a NESTED untagged CHOICE holds: the shape
            # for which encoders keep sort keys and effective tags, and which the rework route re-selects in place
            nums = rng.sample(range(0, 14), 7)
            leaf = lambda n: ('tag', 'I', 'C', n, rng.choice([('int',), ('octs',), ('bool',), ('null',)]))
            inner = ('choice', (('b0', leaf(nums[0])), ('b1', leaf(nums[1])), ('b2', leaf(nums[2]))))
            T2 = ('set', (('m0', leaf(nums[3]), 'req', None),
                          ('c', ('choice', (('a0', inner), ('a1', leaf(nums[4])))), 'req', None),
                          ('m1', leaf(nums[5]), 'opt', None), ('m2', leaf(nums[6]), 'req', None)))
            if U.is_legal(T2):
                T, v = T2, U.gen_value(rng, T2, C.opts_for(tier, rng), small=True)
                res.see('cases-on-a-set-around-a-nested-choice')
        try:
            check_case(res, T, v, rng)
        except Exception:
            res.see('harness:error')
            if len(res.inconclusive) < 3:
                res.inconclusive.append('harness error: ' + H.fmt_exc())
    return res


def replay(case):
    if case[0] == 'enc':
        return C.replay_enc(ID, case)
    res = H.Result(ID)
    T, v = case[1], case[2]
    import random
    for s in range(40):
        check_case(res, T, v, random.Random(s))
        if res.witnesses:
            break
    return res
