"""AST -> pyasn1 schema / value objects / plain-Python trees (DESIGN 2.1), and the abstraction function
pyasn1 object -> abstract value (DESIGN 2.2, public non-instantiating API only)."""
import random

from pyasn1.type import char, namedtype, namedval, tag, univ, useful
from pyasn1.type import base as _base
from pyasn1 import error as _error

from . import universe as U

_CLS = {'A': tag.tagClassApplication, 'C': tag.tagClassContext, 'P': tag.tagClassPrivate}

_SIMPLE_CLASSES = {
    'bool': univ.Boolean, 'int': univ.Integer, 'bits': univ.BitString, 'octs': univ.OctetString,
    'null': univ.Null, 'oid': univ.ObjectIdentifier, 'real': univ.Real, 'any': univ.Any,
}


class NotAValue(Exception):
    """abs() found something that is not a value of T (placeholder, missing mandatory, wrong class)."""


def schema(T, cache=None):
    """A fresh pyasn1 schema object for T.  cache: a dict makes equal sub-types share ONE schema object (module-level
    type definitions reused in several places, as real programs have them)."""
    if cache is not None:
        if T in cache:
            return cache[T]
        cache[T] = r = _schema(T, cache)
        return r
    return _schema(T, None)


def _schema(T, cache):
    def schema(t):
        return globals()['schema'](t, cache)
    k = T[0]
    if k == 'tag':
        inner = schema(T[4])
        if T[1] == 'E' or U.is_untagged_open(T[4]):
            return inner.subtype(explicitTag=tag.Tag(_CLS[T[2]], tag.tagFormatConstructed, T[3]))
        return inner.subtype(implicitTag=tag.Tag(_CLS[T[2]], tag.tagFormatSimple, T[3]))
    if k in _SIMPLE_CLASSES:
        if len(T) > 1 and k in ('bits', 'int'):
            # BIT STRING with named bits / INTEGER with named numbers
            return _SIMPLE_CLASSES[k](namedValues=namedval.NamedValues(*T[1]))
        return _SIMPLE_CLASSES[k]()
    if k == 'enum':
        return univ.Enumerated(namedValues=namedval.NamedValues(*T[1]))
    if k == 'char':
        return getattr(char, T[1])()
    if k == 'useful':
        return getattr(useful, T[1])()
    if k in ('seq', 'set'):
        nts = []
        for name, ft, pres, dv in T[1]:
            if pres == 'req':
                nts.append(namedtype.NamedType(name, schema(ft)))
            elif pres == 'opt':
                nts.append(namedtype.OptionalNamedType(name, schema(ft)))
            else:
                nts.append(namedtype.DefaultedNamedType(name, value(ft, dv)))
        cls = univ.Sequence if k == 'seq' else univ.Set
        return cls(componentType=namedtype.NamedTypes(*nts))
    if k in ('seqof', 'setof'):
        cls = univ.SequenceOf if k == 'seqof' else univ.SetOf
        return cls(componentType=schema(T[1]))
    if k == 'choice':
        return univ.Choice(componentType=namedtype.NamedTypes(
            *[namedtype.NamedType(n, schema(a)) for n, a in T[1]]))
    raise ValueError(T)


def scalar_arg(B, v):
    """Python initialiser for a simple type B (untagged base) and abstract value v -> (args, kwargs)."""
    k = B[0]
    if k == 'bool':
        return (1 if v else 0,), {}
    if k in ('int', 'enum'):
        return (v,), {}
    if k == 'bits':
        n, x = v
        # positional binary string (a binValue= keyword is ignored when cloning from a value object)
        return (format(x, '0%db' % n) if n else '',), {}
    if k in ('octs', 'any'):
        return (bytes(v),), {}
    if k == 'null':
        return ('',), {}
    if k == 'oid':
        return (tuple(v),), {}
    if k == 'real':
        if v == 0:
            return (0.0,), {}
        if v == 'inf':
            return (float('inf'),), {}
        if v == '-inf':
            return (float('-inf'),), {}
        return ((v[1], v[2], v[3]),), {}
    if k in ('char', 'useful'):
        return (v,), {}
    raise ValueError(B)


def value(T, v, route=None, sch=None):
    """pyasn1 value object of type T holding v.  route: optional Route object selecting construction
    variants (C04); default = by name, declaration order, defaults set explicitly."""
    s = sch if sch is not None else schema(T)
    B = U.base_of(T)
    k = B[0]
    if k in U.SIMPLE or k == 'any':
        a, kw = scalar_arg(B, v)
        if route is not None and k in ('octs', 'oid', 'int', 'char') and len(B) == (2 if k == 'char' else 1):
            alt = _scalar_from(s, B, v, route.scalar_source(k))
            if alt is not None:
                return alt
        return s.clone(*a, **kw)
    obj = s.clone()
    fill(obj, B, v, route)
    return obj


def fill(obj, B, v, route=None):
    k = B[0]
    if k in ('seq', 'set'):
        obj.clear()
        names = [f[0] for f in B[1] if f[0] in v]
        if route is not None:
            names = route.order(names)
        ftypes = dict((f[0], f) for f in B[1])
        for name in names:
            _, ft, pres, dv = ftypes[name]
            if route is not None and pres == 'def' and U.canon(ft, v[name]) == U.canon(ft, dv) \
                    and route.omit_default():
                continue
            # build the member from the component type the parent actually declares (it may carry
            # constraints the AST does not know about)
            sub = value(ft, v[name], route, sch=obj.componentType[name].asn1Object)
            if route is not None and U.base_of(ft)[0] in ('int', 'octs') and len(U.base_of(ft)) == 1 and route.subtype_member():
                # the member is given as a value of a type DERIVED from the declared one (an extra constraint that
                # admits it): legal wherever the parent type is expected, and the same abstract value
                from pyasn1.type import constraint
                x = v[name]
                spec = constraint.ValueRangeConstraint(x - 1, x + 1) if U.base_of(ft)[0] == 'int' else \
                    constraint.ValueSizeConstraint(0, len(x) + 3)
                sub = sub.subtype(subtypeSpec=spec)
            if route is not None and route.by_position():
                obj.setComponentByPosition([f[0] for f in B[1]].index(name), sub)
            else:
                obj.setComponentByName(name, sub)
    elif k in ('seqof', 'setof'):
        obj.clear()
        items = list(v)
        if route is not None and k == 'setof':
            items = route.order(items)
        how = route.list_route() if route is not None else 'append'
        subs = [value(B[1], x, route, sch=obj.componentType) for x in items]
        if how == 'extend':
            obj.extend(subs)
        elif how == 'setpos':
            for i, sv in enumerate(subs):
                obj.setComponentByPosition(i, sv)
        elif how in ('setpos-descending', 'setpos-shuffled', 'setitem-shuffled'):
            # positions assigned out of order: the list has holes on the way, is dense at the end
            idxs = list(range(len(subs)))
            if how == 'setpos-descending':
                idxs.reverse()
            else:
                route.rng.shuffle(idxs)
            for i in idxs:
                if how == 'setitem-shuffled':
                    obj[i] = subs[i]
                else:
                    obj.setComponentByPosition(i, subs[i])
        else:
            for sv in subs:
                obj.append(sv)
    elif k == 'choice':
        alt, av = v
        obj.setComponentByName(alt, value(dict(B[1])[alt], av, route, sch=obj.componentType[alt].asn1Object))
    else:
        raise ValueError(B)


def _scalar_from(s, B, v, how):
    """The same scalar value handed to the type in another of the forms its constructor documents: another value
    object, hex digits, a tuple of octets, a dotted string, the text of a number, encoded octets; for OCTET STRING also
    a character-string object whose own codec is not the OCTET STRING's (its octets are what counts).  None: no such
    form for this value."""
    k = B[0]
    if how == 'plain':
        return None
    if k == 'octs':
        v = bytes(v)
        if how == 'object':
            return s.clone(univ.OctetString(v))
        if how == 'hex' and v:
            # (a hexValue= keyword is ignored when cloning from a value object, e.g. a DEFAULT member's schema)
            return s.clone(univ.OctetString(hexValue=v.hex()))
        if how == 'tuple' and v:
            return s.clone(tuple(v))
        if how == 'charobj' and v:
            for cls, codec in ((char.BMPString, 'utf-16-be'), (char.UTF8String, 'utf-8'), (char.UniversalString, 'utf-32-be')):
                try:
                    text = v.decode(codec)
                    if text.encode(codec) != v:
                        continue
                    src = cls(text)
                    if src.asOctets() != v:
                        continue
                except Exception:
                    continue
                return s.clone(src)
        return None
    if k == 'oid':
        if how == 'object':
            return s.clone(univ.ObjectIdentifier(tuple(v)))
        if how == 'str':
            return s.clone('.'.join(str(x) for x in v))
        return None
    if k == 'int':
        if how == 'object':
            return s.clone(univ.Integer(v))
        if how == 'str':
            return s.clone(str(v))
        return None
    if k == 'char':
        codec = U.CHAR_KINDS[B[1]][1]
        if how == 'object':
            return s.clone(s.clone(v))
        if how == 'bytes':
            try:
                return s.clone(v.encode(codec))
            except Exception:
                return None
    return None


class Route(object):
    """Construction-route selector for C04 histories."""

    def __init__(self, rng):
        self.rng = rng
        self.used = set()

    def order(self, items):
        items = list(items)
        if self.rng.random() < 0.6:
            self.rng.shuffle(items)
            self.used.add('permuted')
        return items

    def omit_default(self):
        r = self.rng.random() < 0.5
        self.used.add('default-omitted' if r else 'default-explicit')
        return r

    def by_position(self):
        r = self.rng.random() < 0.3
        if r:
            self.used.add('by-position')
        return r

    def list_route(self):
        r = self.rng.choice(['append', 'extend', 'setpos', 'setpos-descending', 'setpos-shuffled', 'setitem-shuffled'])
        self.used.add('list-' + r)
        return r

    def scalar_source(self, k):
        r = self.rng.choice(['plain', 'plain', 'object', 'hex', 'tuple', 'charobj', 'str', 'bytes'])
        if r != 'plain':
            self.used.add('scalar-from-' + r)
        return r

    def subtype_member(self):
        r = self.rng.random() < 0.2
        if r:
            self.used.add('member-of-a-derived-type')
        return r


class OmitDefaults(Route):
    """Deterministic route: DEFAULT components equal to their default are left absent, everything else as in the plain
    construction (C12: a value as a user would build it, without spelling out defaults)."""

    def __init__(self):
        Route.__init__(self, None)

    def order(self, items):
        return list(items)

    def omit_default(self):
        self.used.add('default-omitted')
        return True

    def by_position(self):
        return False

    def list_route(self):
        return 'append'

    def subtype_member(self):
        return False

    def scalar_source(self, k):
        return 'plain'


def pytree(T, v, native_style=False):
    """Plain-Python tree equivalent to v (C17): dict / list / scalars as the native codec uses them.
    Absent OPTIONALs are simply missing."""
    B = U.base_of(T)
    k = B[0]
    if k == 'bool':
        return bool(v)
    if k in ('int', 'enum'):
        return v
    if k == 'bits':
        n, x = v
        return format(x, '0%db' % n) if n else ''
    if k in ('octs', 'any'):
        return bytes(v)
    if k == 'null':
        return None if native_style else ''
    if k == 'oid':
        return '.'.join(str(a) for a in v)
    if k == 'real':
        if native_style:
            return real_float(v)
        # exact: the (mantissa, base, exponent) triple the Real type accepts
        if v == 0:
            return (0, 10, 0)
        if v in ('inf', '-inf'):
            return float(v)
        return (v[1], v[2], v[3])
    if k in ('char', 'useful'):
        return v
    if k in ('seq', 'set'):
        return dict((f[0], pytree(f[1], v[f[0]], native_style)) for f in B[1] if f[0] in v)
    if k in ('seqof', 'setof'):
        return [pytree(B[1], x, native_style) for x in v]
    if k == 'choice':
        return {v[0]: pytree(dict(B[1])[v[0]], v[1], native_style)}
    raise ValueError(B)


def real_float(v):
    """Correctly rounded float image of a real value."""
    if v == 0:
        return 0.0
    if v == 'inf':
        return float('inf')
    if v == '-inf':
        return float('-inf')
    _, m, b, e = v
    from fractions import Fraction
    try:
        return float(Fraction(m) * Fraction(b) ** e)
    except OverflowError:
        return float('inf') if m > 0 else float('-inf')


# --------------------------------------------------------------------------- abstraction

def absval(obj, T):
    """Abstract value of pyasn1 object obj read as type T (public, non-instantiating API only).
    Raises NotAValue when obj is not a value of T."""
    try:
        return _abs(obj, T)
    except NotAValue:
        raise
    except (_error.PyAsn1Error, AttributeError, TypeError, ValueError, KeyError, IndexError) as e:
        raise NotAValue('%s: %s' % (type(e).__name__, e))


def _abs(obj, T):
    B = U.base_of(T)
    k = B[0]
    if not isinstance(obj, _base.Asn1Item):
        raise NotAValue('not an ASN.1 object: %r' % (type(obj),))
    if k in ('seq', 'set'):
        if not isinstance(obj, univ.SequenceAndSetBase) or isinstance(obj, univ.Choice):
            raise NotAValue('wrong class %s for %s' % (type(obj).__name__, k))
        out = {}
        for name, ft, pres, dv in B[1]:
            comp = obj.getComponentByName(name, default=None, instantiate=False)
            if comp is None:
                if pres == 'def':
                    out[name] = dv
                elif pres == 'req':
                    raise NotAValue('mandatory component %s missing' % name)
                continue
            out[name] = _abs(comp, ft)
        return out
    if k in ('seqof', 'setof'):
        if not isinstance(obj, univ.SequenceOfAndSetOfBase):
            raise NotAValue('wrong class %s for %s' % (type(obj).__name__, k))
        if not obj.isValue:
            raise NotAValue('valueless %s' % k)
        out = []
        for i in range(len(obj)):
            comp = obj.getComponentByPosition(i, default=None, instantiate=False)
            if comp is None:
                raise NotAValue('hole at %d' % i)
            out.append(_abs(comp, B[1]))
        return out
    if k == 'choice':
        if not isinstance(obj, univ.Choice):
            raise NotAValue('wrong class %s for choice' % type(obj).__name__)
        name = obj.getName()
        alts = dict(B[1])
        if name not in alts:
            raise NotAValue('unknown alternative %r' % (name,))
        return (name, _abs(obj.getComponent(), alts[name]))
    if not obj.isValue:
        raise NotAValue('valueless %s' % k)
    if k == 'enum':
        want = univ.Enumerated
    elif k == 'char':
        want = getattr(char, B[1])
    elif k == 'useful':
        want = getattr(useful, B[1])
    else:
        want = _SIMPLE_CLASSES[k]
    if not isinstance(obj, want):
        raise NotAValue('wrong class %s for %s' % (type(obj).__name__, k))
    # Integer is a base of Boolean/Enumerated, OctetString of every string-like class: be exact there
    if k == 'int' and isinstance(obj, (univ.Boolean, univ.Enumerated)):
        raise NotAValue('wrong class %s for int' % type(obj).__name__)
    if k == 'octs' and isinstance(obj, (univ.Null, univ.Any, char.AbstractCharacterString)):
        raise NotAValue('wrong class %s for octs' % type(obj).__name__)
    if k == 'bool':
        return bool(int(obj))
    if k in ('int', 'enum'):
        return int(obj)
    if k == 'bits':
        return (len(obj), int(obj.asInteger()))
    if k in ('octs', 'any'):
        return obj.asOctets()
    if k == 'null':
        return None
    if k == 'oid':
        return tuple(int(a) for a in obj)
    if k == 'real':
        if obj.isPlusInf:
            return 'inf'
        if obj.isMinusInf:
            return '-inf'
        m, b, e = obj[0], obj[1], obj[2]
        if isinstance(m, float):
            if m != int(m):
                raise NotAValue('non-integral mantissa %r' % (m,))
            m = int(m)
        return U.real_norm(('r', m, b, e))
    if k in ('char', 'useful'):
        return str(obj)
    raise ValueError(B)


def fingerprint(obj, depth=0):
    """Semantic snapshot of a pyasn1 schema/value object: class, tags, constraints, component types and
    current content, read without instantiating anything (C12)."""
    if obj is None:
        return None
    if not isinstance(obj, _base.Asn1Item):
        return ('py', repr(obj))
    head = (type(obj).__name__, tuple((t.tagClass, t.tagFormat, t.tagId) for t in obj.tagSet.superTags),
            repr(obj.subtypeSpec))
    if isinstance(obj, univ.Choice):
        ct = obj.componentType
        types = tuple((nt.name, fingerprint(nt.asn1Object, depth + 1)) for nt in ct.namedTypes)
        try:
            cur = (obj.getName(), fingerprint(obj.getComponent(), depth + 1))
        except _error.PyAsn1Error:
            cur = None
        return head + (types, cur)
    if isinstance(obj, univ.SequenceAndSetBase):
        ct = obj.componentType
        types = tuple((nt.name, nt.isOptional, nt.isDefaulted, fingerprint(nt.asn1Object, depth + 1))
                      for nt in ct.namedTypes)
        vals = []
        if len(ct):
            for i in range(len(ct)):
                c = obj.getComponentByPosition(i, default=None, instantiate=False)
                vals.append(fingerprint(c, depth + 1))
        else:
            try:
                n = len(obj)
            except Exception:
                n = 0
            for i in range(n):
                c = obj.getComponentByPosition(i, default=None, instantiate=False)
                vals.append(fingerprint(c, depth + 1))
        return head + (types, tuple(vals), bool(obj.isValue))
    if isinstance(obj, univ.SequenceOfAndSetOfBase):
        vals = []
        for i in range(len(obj)):
            c = obj.getComponentByPosition(i, default=None, instantiate=False)
            vals.append(fingerprint(c, depth + 1))
        return head + (fingerprint(obj.componentType, depth + 1), tuple(vals), bool(obj.isValue))
    if not obj.isValue:
        return head + ('<schema>',)
    if isinstance(obj, univ.Real):
        if obj.isInf:
            return head + ('inf+' if obj.isPlusInf else 'inf-',)
        return head + ((obj[0], obj[1], obj[2]),)
    if isinstance(obj, univ.BitString):
        return head + ((len(obj), int(obj.asInteger())),)
    if isinstance(obj, univ.OctetString):
        return head + (obj.asOctets(),)
    if isinstance(obj, univ.ObjectIdentifier):
        return head + (tuple(obj),)
    return head + (int(obj),)
