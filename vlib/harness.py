"""Shared harness pieces: shard results, witnesses, exception taxonomy, known-finding classification."""
import ast
import fnmatch
import collections
import json
import os
import sys
import traceback

VERIF = os.path.dirname(os.path.dirname(os.path.abspath(__file__)))
REPO = os.environ.get('VERIF_REPO', '/repo')


def setup_paths():
    """Make `import pyasn1` resolve to the tree under test ($VERIF_REPO, default /repo)."""
    sys.set_int_max_str_digits(0)
    if REPO not in sys.path or sys.path[0] != REPO:
        sys.path.insert(0, REPO)
    deps = os.path.join(VERIF, '.deps')
    if os.path.isdir(deps) and deps not in sys.path:
        sys.path.append(deps)
    import pyasn1
    got = os.path.realpath(os.path.dirname(os.path.dirname(pyasn1.__file__)))
    if got != os.path.realpath(REPO):
        raise RuntimeError('pyasn1 imported from %s, expected %s' % (got, REPO))
    return pyasn1


class Result(object):
    """What one shard (or one replay) observed."""

    def __init__(self, prop):
        self.prop = prop
        self.evaluations = 0
        self.hashes = set()          # canonical hashes of distinct non-trivial cases
        self.samples = []
        self.obs = collections.Counter()   # monitor observations (named counters)
        self.sets = collections.defaultdict(set)  # named sets of observed things (merged by union)
        self.maxima = {}
        self.witnesses = []
        self.inconclusive = []
        self.kf_hits = collections.Counter()

    def case(self, h, nontrivial=True):
        self.evaluations += 1
        if nontrivial:
            self.hashes.add(h)

    def sample(self, s, limit=4):
        if len(self.samples) < limit:
            self.samples.append(s)

    def see(self, name, n=1):
        self.obs[name] += n

    def see_in(self, setname, item):
        self.sets[setname].add(item)

    def maximum(self, name, val):
        if val > self.maxima.get(name, float('-inf')):
            self.maxima[name] = val

    def witness(self, symptom, features, case, detail=''):
        """Record a property violation candidate.  features: iterable of structural feature names of the
        case; case: literal_eval-able descriptor; symptom: member of the property's symptom enumeration."""
        self._per = getattr(self, '_per', collections.Counter())
        self._per[symptom] += 1
        if self._per[symptom] <= 25:
            self.witnesses.append({'symptom': symptom, 'features': sorted(set(features)),
                                   'case': repr(case), 'detail': str(detail)[:1500]})
        self.obs['witness:' + symptom] += 1

    def to_json(self):
        return {'prop': self.prop, 'evaluations': self.evaluations, 'hashes': sorted(self.hashes),
                'samples': self.samples, 'obs': dict(self.obs),
                'sets': dict((k, sorted(v)) for k, v in self.sets.items()),
                'maxima': self.maxima, 'witnesses': self.witnesses, 'inconclusive': self.inconclusive,
                'kf_hits': dict(self.kf_hits)}


def case_from_repr(s):
    return ast.literal_eval(s)


# ---------------------------------------------------------------- exception taxonomy (DESIGN 2.5)

def classify_exception(exc):
    """'underrun' | 'eos' | 'library' | ('leak', signature)"""
    from pyasn1 import error
    if isinstance(exc, error.EndOfStreamError):
        return 'eos'
    if isinstance(exc, error.SubstrateUnderrunError):
        return 'underrun'
    if isinstance(exc, error.PyAsn1Error):
        return 'library'
    return ('leak', leak_signature(exc))


def leak_signature(exc):
    """(exception type, innermost two repo frames as module.function) - no line numbers, no message."""
    frames = []
    tb = exc.__traceback__
    while tb is not None:
        fn = tb.tb_frame.f_code.co_filename
        if os.sep + 'pyasn1' + os.sep in fn:
            mod = fn.split(os.sep + 'pyasn1' + os.sep, 1)[1][:-3].replace(os.sep, '.')
            frames.append('%s.%s' % (mod, tb.tb_frame.f_code.co_name))
        tb = tb.tb_next
    return '%s@%s' % (type(exc).__name__, '<-'.join(reversed(frames[-2:])) or 'outside-repo')


# ---------------------------------------------------------------- known findings

def load_findings():
    path = os.path.join(VERIF, 'known_findings.json')
    if not os.path.exists(path):
        return []
    with open(path) as f:
        return json.load(f)['findings']


def match_finding(prop, witness, findings):
    """An open finding matches iff property, symptom and zone (subset of the case's features) all match."""
    feats = set(witness['features'])
    for f in findings:
        if f.get('status') != 'open' or f['property'] != prop:
            continue
        syms = f['symptom'] if isinstance(f['symptom'], list) else [f['symptom']]
        if not any(fnmatch.fnmatchcase(witness['symptom'], pat) for pat in syms):
            continue
        if set(f.get('zone', [])) <= feats:
            return f
    return None


def fmt_exc():
    return traceback.format_exc()[-1500:]
