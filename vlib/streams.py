"""Stream doubles with arrival schedules and recorded event logs (DESIGN 2.4).

The decoder's protocol with its substrate: read(n) -> None = no data yet; fewer than n octets = short read
(decoder seeks back and reports underrun); b'' for n != 0 = end of stream."""
import io
import sys


class Gate(object):
    """Arrival state shared by the doubles: `limit` = number of octets that have arrived, `closed` = the
    peer has signalled end of stream (only meaningful once limit == total)."""

    def __init__(self, total, policy='short'):
        self.total = total
        self.limit = 0
        self.closed = False
        self.policy = policy        # 'short': hand out what is there; 'none': answer None unless n octets are there;
                                    # 'none0': as 'none', and None to a zero-octet read while nothing more has arrived
        self.log = []
        self.unsatisfied = False    # a read since the last reset was answered with None or fewer octets than asked
        self.reads = 0

    def arrive(self, k):
        self.limit = min(self.total, self.limit + k)
        self.log.append(('arrive', k, self.limit))

    def close(self):
        self.closed = True
        self.log.append(('close',))

    def answer(self, pos, n):
        """How many octets a read(n) at position pos gets: int, or None for 'no data yet'."""
        avail = self.limit - pos
        if n is None or n < 0:
            if avail <= 0:
                return 0 if (self.closed and self.limit >= self.total) else None
            return avail
        if n == 0:
            # a read of no octets: a stream with the 'none0' policy answers "no data yet" to that as well while nothing
            # has arrived beyond the position (the repository's own non-blocking test double says None to every other
            # read whatever its size)
            if self.policy == 'none0' and avail <= 0 and not (self.closed and self.limit >= self.total):
                return None
            return 0
        if avail >= n:
            return n
        if avail <= 0:
            return 0 if (self.closed and self.limit >= self.total) else None
        if self.closed and self.limit >= self.total:
            return avail
        return avail if self.policy == 'short' else None      # 'none' and 'none0'


class SeekableSched(io.BytesIO):
    """Seekable growing stream: the whole byte string sits in the buffer (so seek/tell and BytesIO's own
    end test see the truth, like the repository's NonBlockingStream test double) but read() only delivers
    what has arrived."""

    def __init__(self, data, policy='short'):
        io.BytesIO.__init__(self, data)
        self.gate = Gate(len(data), policy)

    def read(self, n=-1):
        if n is not None and n > sys.maxsize:
            raise OverflowError("cannot fit 'int' into an index-sized integer")   # as io.BytesIO does
        g = self.gate
        pos = self.tell()
        g.reads += 1
        k = g.answer(pos, n)
        if k is None:
            g.unsatisfied = True
            g.log.append(('read', n, pos, None))
            return None
        out = io.BytesIO.read(self, k)
        if n is not None and n > 0 and len(out) < n:
            g.unsatisfied = True
        g.log.append(('read', n, pos, len(out)))
        return out


class RawSched(io.RawIOBase):
    """Non-seekable stream (pyasn1 wraps it in CachingStreamWrapper)."""

    def __init__(self, data, policy='short'):
        io.RawIOBase.__init__(self)
        self.data = data
        self.pos = 0
        self.gate = Gate(len(data), policy)

    def readable(self):
        return True

    def seekable(self):
        return False

    def read(self, n=-1):
        if n is not None and n > sys.maxsize:
            raise OverflowError("cannot fit 'int' into an index-sized integer")   # as real raw streams do
        g = self.gate
        g.reads += 1
        k = g.answer(self.pos, n)
        if k is None:
            g.unsatisfied = True
            g.log.append(('read', n, self.pos, None))
            return None
        out = self.data[self.pos:self.pos + k]
        self.pos += len(out)
        if n is not None and n > 0 and len(out) < n:
            g.unsatisfied = True
        g.log.append(('read', n, self.pos - len(out), len(out)))
        return out


def partitions(n):
    """All 2^(n-1) compositions of n as lists of positive chunk sizes (n >= 1)."""
    for mask in range(1 << (n - 1)):
        out = []
        run = 1
        for i in range(n - 1):
            if mask >> i & 1:
                out.append(run)
                run = 1
            else:
                run += 1
        out.append(run)
        yield out


def random_partition(rng, n, interesting=()):
    """Random composition of n, biased towards cut points listed in `interesting`."""
    cuts = set()
    k = rng.choice([0, 1, 1, 2, 3, 5, 8])
    pool = [c for c in interesting if 0 < c < n]
    for _ in range(k):
        if pool and rng.random() < 0.7:
            cuts.add(rng.choice(pool))
        elif n > 1:
            cuts.add(rng.randint(1, n - 1))
    out = []
    prev = 0
    for c in sorted(cuts) + [n]:
        out.append(c - prev)
        prev = c
    return out
