"""Independent X.690 reference (DESIGN 2.3).  Imports nothing from pyasn1.

  der(T, v), cer(T, v)                deterministic canonical writers
  BerWriter(chooser).enc(T, v)        nondeterministic BER writer (every sender's option is a choice)
  tlv(data)                           schemaless TLV parser with offsets
  read(T, data, rules)                guided reader -> (value, rest)
  cer_form_violations(data)           the four CER form rules named by C03
  rewrites(data)                      single-element non-canonical rewrites of a DER encoding (C15)
"""
from . import universe as U

CLS = {'U': 0x00, 'A': 0x40, 'C': 0x80, 'P': 0xC0}
CLS_ORDER = {'U': 0, 'A': 1, 'C': 2, 'P': 3}
CLS_REV = {0x00: 'U', 0x40: 'A', 0x80: 'C', 0xC0: 'P'}


class RefError(Exception):
    """The reference cannot read the bytes as the given type (malformed or not a value of T)."""


# ------------------------------------------------------------------ primitive writers

def ident(cls, num, cons):
    first = CLS[cls] | (0x20 if cons else 0)
    if num < 31:
        return bytes([first | num])
    out = [num & 0x7f]
    num >>= 7
    while num:
        out.append(0x80 | (num & 0x7f))
        num >>= 7
    return bytes([first | 0x1f] + out[::-1])


def length_min(n):
    if n < 0x80:
        return bytes([n])
    b = n.to_bytes((n.bit_length() + 7) // 8, 'big')
    return bytes([0x80 | len(b)]) + b


def length_padded(n, pad):
    """Long form with `pad` redundant leading zero octets (legal BER, X.690 8.1.3.5 note)."""
    b = n.to_bytes(max(1, (n.bit_length() + 7) // 8), 'big')
    b = b'\x00' * pad + b
    return bytes([0x80 | len(b)]) + b


def int_content(x):
    bl = (x if x >= 0 else ~x).bit_length() + 1
    return x.to_bytes((bl + 7) // 8, 'big', signed=True)


def bits_content(nbits, x):
    pad = (8 - nbits % 8) % 8
    nbytes = (nbits + 7) // 8
    return bytes([pad]) + (x << pad).to_bytes(nbytes, 'big')


def base128(x):
    out = [x & 0x7f]
    x >>= 7
    while x:
        out.append(0x80 | (x & 0x7f))
        x >>= 7
    return bytes(out[::-1])


def oid_content(arcs):
    if len(arcs) < 2:
        raise ValueError('OID needs two arcs')
    first = arcs[0] * 40 + arcs[1]
    return b''.join(base128(a) for a in (first,) + tuple(arcs[2:]))


def twos(e):
    bl = (e if e >= 0 else ~e).bit_length() + 1
    return e.to_bytes((bl + 7) // 8, 'big', signed=True)


def real_content_canonical(r):
    """X.690 8.5 + 11.3 (CER/DER)."""
    if r == 0:
        return b''
    if r == 'inf':
        return b'\x40'
    if r == '-inf':
        return b'\x41'
    _, m, b, e = r
    if b == 2:
        sign = 0x40 if m < 0 else 0
        m = abs(m)
        while m % 2 == 0:
            m //= 2
            e += 1
        return real_binary_octets(sign, 2, 0, e, m)
    # base 10: NR3, 11.3.2
    s = ''
    if m < 0:
        s = '-'
        m = -m
    while m % 10 == 0:
        m //= 10
        e += 1
    s += '%d.E' % m
    s += '+0' if e == 0 else '%d' % e
    return b'\x03' + s.encode('ascii')


def real_binary_octets(sign, base, F, e, n, pad_exp=0):
    """First octet + exponent + mantissa for binary encodings; e is the exponent in the given base."""
    fo = 0x80 | sign | {2: 0x00, 8: 0x10, 16: 0x20}[base] | (F << 2)
    eo = twos(e)
    if pad_exp:
        eo = (b'\xff' if e < 0 else b'\x00') * pad_exp + eo
    if len(eo) == 1:
        pass
    elif len(eo) == 2:
        fo |= 1
    elif len(eo) == 3:
        fo |= 2
    else:
        fo |= 3
        eo = bytes([len(eo)]) + eo
    no = n.to_bytes(max(1, (n.bit_length() + 7) // 8), 'big')
    return bytes([fo]) + eo + no


def text_content(T, s):
    return s.encode(U.text_codec(T))


def content_of(T, v):
    """Contents octets of a simple type in its (unique) primitive form; BOOLEAN TRUE = FF."""
    k = T[0]
    if k == 'bool':
        return b'\xff' if v else b'\x00'
    if k in ('int', 'enum'):
        return int_content(v)
    if k == 'bits':
        return bits_content(*v)
    if k == 'octs':
        return bytes(v)
    if k == 'null':
        return b''
    if k == 'oid':
        return oid_content(v)
    if k == 'real':
        return real_content_canonical(v)
    if k in ('char', 'useful'):
        return text_content(T, v)
    raise ValueError(k)


def tag_sort_key(t):
    return (CLS_ORDER[t[0]], t[1])


def first_tag(enc):
    """(class, number) of the identifier octets at the start of enc."""
    b0 = enc[0]
    cls = CLS_REV[b0 & 0xC0]
    num = b0 & 0x1f
    if num == 0x1f:
        num = 0
        i = 1
        while True:
            num = (num << 7) | (enc[i] & 0x7f)
            if not enc[i] & 0x80:
                break
            i += 1
    return cls, num


def min_tag(T):
    """Smallest tag an (untagged CHOICE) type can start with - CER SET ordering (X.690 9.3)."""
    return min(U.outer_tags(T), key=tag_sort_key)


# ------------------------------------------------------------------ chooser (nondeterminism)

class Canon(object):
    """Chooser for the canonical writers: never asked anything."""
    rules = 'DER'


class Chooser(object):
    """Records every nondeterministic decision of the BER writer (the replay descriptor)."""

    def __init__(self, rng, p=None, script=None):
        self.rng = rng
        self.log = []
        self.script = list(script) if script is not None else None
        self.p = dict(overlong=0.15, indef=0.4, segment=0.35, nested_segment=0.25, true_any=0.6,
                      permute=0.6, default_present=0.5, real_variant=0.5, empty_segment=0.15)
        if p:
            self.p.update(p)
        self.hist = {}

    def _rec(self, name, val):
        self.log.append((name, val))
        self.hist[name + '=' + str(val if not isinstance(val, (list, tuple)) else 'seq')] = \
            self.hist.get(name + '=' + str(val if not isinstance(val, (list, tuple)) else 'seq'), 0) + 1
        return val

    def flip(self, name, prob_key):
        if self.script is not None:
            n, v = self.script.pop(0)
            assert n == name, (n, name)
            return self._rec(name, v)
        return self._rec(name, self.rng.random() < self.p[prob_key])

    def pick(self, name, options):
        if self.script is not None:
            n, v = self.script.pop(0)
            assert n == name, (n, name)
            return self._rec(name, v)
        return self._rec(name, self.rng.choice(options))

    def perm(self, name, n):
        if self.script is not None:
            nm, v = self.script.pop(0)
            assert nm == name
            return self._rec(name, list(v))
        idx = list(range(n))
        if self.rng.random() < self.p['permute']:
            self.rng.shuffle(idx)
        return self._rec(name, idx)

    def cuts(self, name, n, unit=1):
        """Cut points for segmenting n units: sorted list of segment sizes (may contain zeros)."""
        if self.script is not None:
            nm, v = self.script.pop(0)
            assert nm == name
            return self._rec(name, list(v))
        if n == 0:
            k = self.rng.choice([0, 1, 2])
            return self._rec(name, [0] * k)
        k = self.rng.choice([1, 2, 2, 3, 5])
        pts = sorted(self.rng.randint(0, n) for _ in range(k - 1))
        sizes = []
        prev = 0
        for p_ in pts + [n]:
            sizes.append(p_ - prev)
            prev = p_
        if self.rng.random() >= self.p['empty_segment']:
            sizes = [s for s in sizes if s] or [n]
        return self._rec(name, sizes)


# ------------------------------------------------------------------ writers

class Writer(object):
    def __init__(self, rules='DER', chooser=None):
        self.rules = rules
        self.ch = chooser
        assert rules in ('DER', 'CER') or chooser is not None

    # framing
    def frame(self, tag, cons, content, depth=0):
        cls, num = tag
        if self.rules == 'DER':
            return ident(cls, num, cons) + length_min(len(content)) + content
        if self.rules == 'CER':
            if cons:
                return ident(cls, num, True) + b'\x80' + content + b'\x00\x00'
            return ident(cls, num, False) + length_min(len(content)) + content
        # BER
        if cons and self.ch.flip('indef', 'indef'):
            return ident(cls, num, True) + b'\x80' + content + b'\x00\x00'
        if self.ch.flip('overlong', 'overlong'):
            pad = self.ch.pick('pad', [0, 1, 2, 5]) if len(content) >= 0x80 else self.ch.pick('pad', [0, 1, 3])
            return ident(cls, num, cons) + length_padded(len(content), pad) + content
        return ident(cls, num, cons) + length_min(len(content)) + content

    def enc(self, T, v, override=None):
        k = T[0]
        if k == 'tag':
            mode, c, n, inner = T[1:]
            if mode == 'E' or U.is_untagged_open(inner):
                content = self.enc(inner, v)
                return self.frame(override or (c, n), True, content)
            return self.enc(inner, v, override or (c, n))
        if k == 'choice':
            alt, av = v
            return self.enc(dict(T[1])[alt], av)
        if k == 'any':
            return bytes(v)
        tag = override or ('U', U.univ_tag(T))
        if k in ('seq', 'set'):
            return self.frame(tag, True, self.record_content(T, v))
        if k in ('seqof', 'setof'):
            return self.frame(tag, True, self.list_content(T, v))
        if k in U.STRINGISH:
            return self.string(tag, T, v)
        if k == 'bool' and self.rules == 'BER':
            if v and self.ch.flip('true_any', 'true_any'):
                return self.frame(tag, False, bytes([self.ch.pick('true_octet', [1, 2, 0x7f, 0x80, 0xfe, 0xff])]))
            return self.frame(tag, False, content_of(T, v))
        if k == 'real' and self.rules == 'BER':
            return self.frame(tag, False, self.real_ber(v))
        return self.frame(tag, False, content_of(T, v))

    # ---- strings
    def string(self, tag, T, v):
        k = T[0]
        if k == 'bits':
            nbits, x = v
            data = bits_content(nbits, x)[1:]
            pad = (8 - nbits % 8) % 8
        else:
            data = content_of(T, v)
            pad = None
        if self.rules == 'DER':
            return self.frame(tag, False, content_of(T, v))
        if self.rules == 'CER':
            whole = content_of(T, v)
            if len(whole) <= 1000:
                return self.frame(tag, False, whole)
            segs = []
            if k == 'bits':
                # each fragment has 1000 contents octets incl. the unused-bits octet
                for i in range(0, len(data), 999):
                    chunk = data[i:i + 999]
                    last = i + 999 >= len(data)
                    segs.append(self.frame(('U', 3), False, bytes([pad if last else 0]) + chunk))
            else:
                for i in range(0, len(data), 1000):
                    segs.append(self.frame(('U', 4), False, data[i:i + 1000]))
            return self.frame(tag, True, b''.join(segs))
        # BER: primitive or (nested) segmented
        if not self.ch.flip('segment', 'segment'):
            return self.frame(tag, False, content_of(T, v))
        return self.frame(tag, True, self.segments(k == 'bits', data, pad, 0))

    def segments(self, isbits, data, pad, depth):
        sizes = self.ch.cuts('cuts', len(data))
        if isbits and pad:
            # X.690 8.6.4: only the last segment may hold a number of bits that is not a multiple of 8
            while sizes and sizes[-1] == 0:
                sizes = sizes[:-1]
        if isbits and not sizes:
            # a constructed BIT STRING without any segment is left out: whether it denotes the empty bit
            # string is a matter of reading 8.6.4, and the library refuses it
            sizes = [0]
        out = []
        pos = 0
        for i, sz in enumerate(sizes):
            chunk = data[pos:pos + sz]
            pos += sz
            last = i == len(sizes) - 1
            segtag = ('U', 3 if isbits else 4)
            if depth < 2 and self.ch.flip('nested_segment', 'nested_segment'):
                inner = self.segments(isbits, chunk, pad if last else 0, depth + 1)
                out.append(self.frame(segtag, True, inner))
            elif isbits:
                out.append(self.frame(segtag, False, bytes([pad if last else 0]) + chunk))
            else:
                out.append(self.frame(segtag, False, chunk))
        if isbits and not sizes:
            # a constructed BIT STRING with no fragments denotes the empty bit string
            pass
        return b''.join(out)

    # ---- real
    def real_ber(self, r):
        if r in (0, 'inf', '-inf') or not self.ch.flip('real_variant', 'real_variant'):
            return real_content_canonical(r)
        _, m, b, e = r
        if b == 10:
            form = self.ch.pick('nr', ['nr3', 'nr3plain', 'nr2', 'nr1'])
            sign = '-' if m < 0 else ''
            am = abs(m)
            if form == 'nr1' and 0 <= e <= 6:
                return b'\x01' + (sign + str(am) + '0' * e).encode()
            if form == 'nr2' and -8 <= e <= 6:
                if e >= 0:
                    s = str(am) + '0' * e + '.0'
                else:
                    digits = str(am).rjust(-e + 1, '0')
                    s = digits[:e] + '.' + digits[e:]
                return b'\x02' + (sign + s).encode()
            if form == 'nr3plain':
                return b'\x03' + ('%s%d.E%+d' % (sign, am, e)).encode()
            return real_content_canonical(r)
        sign = 0x40 if m < 0 else 0
        n = abs(m)
        variant = self.ch.pick('bin', ['even', 'scale', 'base8', 'base16', 'padexp'])
        if variant == 'even':
            sh = self.ch.pick('shift', [1, 2, 5])
            return real_binary_octets(sign, 2, 0, e - sh, n << sh)
        if variant == 'scale':
            F = self.ch.pick('F', [1, 2, 3])
            # value = n * 2^F * 2^e'  => e' = e - F
            return real_binary_octets(sign, 2, F, e - F, n)
        if variant in ('base8', 'base16'):
            w = 3 if variant == 'base8' else 4
            # n * 2^e = (n << s) * (2^w)^q  with e - s = w*q, 0 <= s < w
            s = e % w
            q = (e - s) // w
            return real_binary_octets(sign, 2 ** w, 0, q, n << s)
        return real_binary_octets(sign, 2, 0, e, n, pad_exp=self.ch.pick('padexp', [1, 2]))

    # ---- containers
    def present_fields(self, T, v):
        out = []
        for name, ft, pres, dv in T[1]:
            if name not in v:
                continue
            if pres == 'def' and U.canon(ft, v[name]) == U.canon(ft, dv):
                if self.rules in ('DER', 'CER'):
                    continue
                if not self.ch.flip('default_present', 'default_present'):
                    continue
            out.append((name, ft, v[name]))
        return out

    def record_content(self, T, v):
        fields = self.present_fields(T, v)
        encs = [(ft, self.enc(ft, fv)) for name, ft, fv in fields]
        if T[0] == 'set':
            if self.rules == 'DER':
                encs.sort(key=lambda p: tag_sort_key(first_tag(p[1])))
            elif self.rules == 'CER':
                encs.sort(key=lambda p: tag_sort_key(min_tag(p[0])))
            else:
                order = self.ch.perm('setperm', len(encs))
                encs = [encs[i] for i in order]
        return b''.join(e for _, e in encs)

    def list_content(self, T, v):
        encs = [self.enc(T[1], x) for x in v]
        if T[0] == 'setof':
            if self.rules in ('DER', 'CER'):
                mx = max([len(e) for e in encs] or [0])
                encs.sort(key=lambda e: e.ljust(mx, b'\x00'))
            else:
                order = self.ch.perm('setofperm', len(encs))
                encs = [encs[i] for i in order]
        return b''.join(encs)


class PyWriter(Writer):
    """The encoding pyasn1's own sender's choices would give for codec in BER/CER/DER (definite or
    indefinite per mode, its chunking policy, declaration order for BER SETs, insertion order for BER
    SET OF, 01 for BER TRUE), optionally with the byte transformation of named known findings applied
    (DESIGN 2.7).  emulate may contain:
       'stray-eoo'      definite explicit wrapper over a non-string primitive is still followed by 00 00
                        in indefinite mode
       'real-nr3-nodot' decimal REAL written 123E11 instead of 123.E11
       'real-default-float'
                        DEFAULT omission of a REAL component is decided on float() images: raises
                        OverflowError beyond the float range, treats values that underflow alike
       'time-fraction-zeros'
                        CER/DER: every 0 among the first fraction digits of a GeneralizedTime is deleted
       'emptyable-optional'
                        CER/DER: an OPTIONAL component whose
                        constructed encoding has no contents is dropped, and the same test leaks into
                        SEQUENCE OF/SET OF elements and CHOICE alternatives below an OPTIONAL component
    """
    NONSTRING = ('bool', 'int', 'enum', 'null', 'oid', 'real')

    def __init__(self, codec='BER', defMode=True, chunk=0, emulate=()):
        self.codec = codec
        if codec == 'CER':
            defMode, chunk = False, 1000
        elif codec == 'DER':
            defMode, chunk = True, 0
        self.defMode = defMode
        self.chunk = chunk
        self.emulate = set(emulate)
        self.rules = {'BER': 'PYBER', 'CER': 'CER', 'DER': 'DER'}[codec]
        self.ch = None
        self.used = set()   # which emulations changed the output

    def frame(self, tag, cons, content, wrapper_of=None):
        cls, num = tag
        if self.defMode or not cons:
            return ident(cls, num, cons) + length_min(len(content)) + content
        if wrapper_of in self.NONSTRING:
            out = ident(cls, num, True) + length_min(len(content)) + content
            if 'stray-eoo' in self.emulate:
                self.used.add('stray-eoo')
                out += b'\x00\x00'
            return out
        return ident(cls, num, True) + b'\x80' + content + b'\x00\x00'

    def enc(self, T, v, override=None, ifne=False):
        """ifne: pyasn1's `ifNotEmpty` option as it stands when this element is encoded."""
        k = T[0]
        if k == 'tag':
            mode, c, n, inner = T[1:]
            if mode == 'E' or U.is_untagged_open(inner):
                content = self.enc(inner, v, None, ifne)
                if not content:
                    return b''
                return self.frame(override or (c, n), True, content, wrapper_of=U.base_of(inner)[0])
            return self.enc(inner, v, override or (c, n), ifne)
        if k == 'choice':
            alt, av = v
            return self.enc(dict(T[1])[alt], av, None, ifne)
        if k == 'any':
            return bytes(v)
        tag = override or ('U', U.univ_tag(T))
        if k in ('seq', 'set', 'seqof', 'setof'):
            content = self.record_content(T, v) if k in ('seq', 'set') else self.list_content(T, v, ifne)
            if not content and ifne:
                self.used.add('emptyable-optional')
                return b''
            return self.frame(tag, True, content)
        if k == 'useful' and T[1] == 'GeneralizedTime' and self.codec in ('CER', 'DER') \
                and 'time-fraction-zeros' in self.emulate:
            v2 = py_time_trim(v)
            if v2 != v:
                self.used.add('time-fraction-zeros')
            return self.string(tag, T, v2)
        if k in U.STRINGISH:
            return self.string(tag, T, v)
        if k == 'bool':
            one = b'\xff' if self.codec in ('CER', 'DER') else b'\x01'
            return self.frame(tag, False, one if v else b'\x00')
        if k == 'real' and isinstance(v, tuple) and v[2] == 10 and 'real-nr3-nodot' in self.emulate:
            _, m, b, e = U.real_norm(v)
            s_ = '%dE%s%d' % (m, '+' if e == 0 else '', e)
            self.used.add('real-nr3-nodot')
            return self.frame(tag, False, b'\x03' + s_.encode('ascii'))
        return self.frame(tag, False, content_of(T, v))

    def string(self, tag, T, v):
        k = T[0]
        whole = content_of(T, v)
        if k == 'bits':
            nbits, x = v
            data = whole[1:]
            pad = whole[0]
            # BER mode: maxChunkSize counts data octets; CER: 1000 contents octets incl. the pad octet
            chunk = self.chunk - 1 if self.codec == 'CER' else self.chunk
            if not chunk or len(data) <= chunk:
                return self.frame(tag, False, whole)
            segs = []
            for i in range(0, len(data), chunk):
                part = data[i:i + chunk]
                last = i + chunk >= len(data)
                segs.append(ident('U', 3, False) + length_min(1 + len(part)) + bytes([pad if last else 0]) + part)
            return self.frame(tag, True, b''.join(segs))
        if not self.chunk or len(whole) <= self.chunk:
            return self.frame(tag, False, whole)
        segs = []
        for i in range(0, len(whole), self.chunk):
            part = whole[i:i + self.chunk]
            segs.append(ident('U', 4, False) + length_min(len(part)) + part)
        return self.frame(tag, True, b''.join(segs))

    @staticmethod
    def emptyable(ft):
        b = U.base_of(ft)
        # a field-less record type is a schema until clear() is called; one with (only optional) fields
        # is a value from the start
        return b[0] in ('seq', 'set') and len(b[1]) > 0 and all(f[2] != 'req' for f in b[1])

    def record_content(self, T, v):
        emu = 'emptyable-optional' in self.emulate
        encs = []
        for name, ft, pres, dv in T[1]:
            if name in v:
                fv = v[name]
                if pres == 'def' and U.base_of(ft)[0] == 'real' and 'real-default-float' in self.emulate:
                    # the library decides DEFAULT omission of REALs on their float() images
                    same = py_real_float(fv) == py_real_float(dv)
                    if same != (U.canon(ft, fv) == U.canon(ft, dv)):
                        self.used.add('real-default-float')
                    if same:
                        continue
                elif pres == 'def' and U.canon(ft, fv) == U.canon(ft, dv):
                    continue
            else:
                # (until fix b7c... the encoder's own read instantiated an absent OPTIONAL record without mandatory
                # members and BER wrote it present-and-empty; the encoders no longer instantiate what is absent)
                continue
            ifne = emu and self.codec in ('CER', 'DER') and pres == 'opt'
            e = self.enc(ft, fv, None, ifne)
            if e:
                encs.append((ft, e))
        if T[0] == 'set' and self.codec == 'DER':
            encs.sort(key=lambda p: tag_sort_key(first_tag(p[1])))
        elif T[0] == 'set' and self.codec == 'CER':
            encs.sort(key=lambda p: tag_sort_key(min_tag(p[0])))
        return b''.join(e for _, e in encs)

    def list_content(self, T, v, ifne=False):
        encs = [self.enc(T[1], x, None, ifne) for x in v]
        if T[0] == 'setof' and self.codec in ('CER', 'DER'):
            mx = max([len(e) for e in encs] or [0])
            encs.sort(key=lambda e: e.ljust(mx, b'\x00'))
        return b''.join(encs)


class EmuRaises(Exception):
    """The emulated library behaviour is to raise (args[0] = exception class name, args[1] = finding)."""


def py_real_float(r):
    """float(Real) as the library computes it; raises EmuRaises where it raises OverflowError."""
    if r == 0:
        return 0.0
    if r == 'inf':
        return float('inf')
    if r == '-inf':
        return float('-inf')
    _, m, b, e = r
    try:
        return float(m * pow(b, e))
    except OverflowError:
        raise EmuRaises('OverflowError', 'real-default-float')


def py_time_trim(s):
    """The CER/DER time canonicalisation as the library performs it (known finding: every '0' among the
    first fraction digits is deleted, not only trailing ones)."""
    n = list(s)
    if '.' not in n:
        return s
    i = min(n.index('.') + 4, len(n) - 1)
    while n[i] != '.':
        if n[i] == '0':
            del n[i]
        i -= 1
    i += 1
    if i < len(n) and n[i] == 'Z':
        del n[i - 1]
    return ''.join(n)


def like_pyasn1(T, v, codec='BER', defMode=True, chunk=0, emulate=()):
    return PyWriter(codec, defMode, chunk, emulate).enc(T, v)


def like_pyasn1_used(T, v, codec='BER', defMode=True, chunk=0, emulate=()):
    """-> (bytes, set of emulations that actually changed the output)"""
    w = PyWriter(codec, defMode, chunk, emulate)
    return w.enc(T, v), w.used


def der(T, v):
    return Writer('DER').enc(T, v)


def cer(T, v):
    return Writer('CER').enc(T, v)


def ber_variant(T, v, rng, p=None, script=None):
    ch = Chooser(rng, p, script)
    return Writer('BER', ch).enc(T, v), ch


def default_any_maker(rng):
    """A complete, canonical (DER) TLV usable as the value of an ANY."""
    o = U.GenOpts(depth=1, allow_any=False, allow_real=False, big_strings=False, fanout=2,
                  allow_default=False, big_tag_numbers=False)
    T = U.gen_type(rng, o, depth=rng.choice([0, 0, 1]))
    v = U.gen_value(rng, T, o, small=True)
    return der(T, v)


def ber_any_maker(rng):
    """ANY values in arbitrary BER form (indefinite lengths, segmented strings) - for BER-only properties."""
    o = U.GenOpts(depth=2, allow_any=False, allow_real=False, big_strings=False, fanout=2,
                  allow_default=False, big_tag_numbers=rng.random() < 0.4)
    T = U.gen_type(rng, o, depth=rng.choice([0, 1, 2]))
    v = U.gen_value(rng, T, o, small=True)
    if rng.random() < 0.3:
        return der(T, v)
    return ber_variant(T, v, rng, p={'indef': 0.7})[0]


# ------------------------------------------------------------------ schemaless TLV parser

class Node(object):
    __slots__ = ('cls', 'num', 'cons', 'start', 'len_off', 'content_off', 'content_end', 'end', 'indef',
                 'children', 'length_octets', 'depth')

    def tag(self):
        return (self.cls, self.num)

    def content(self, data):
        return data[self.content_off:self.content_end]

    def header(self, data):
        return data[self.start:self.content_off]

    def walk(self):
        yield self
        for c in self.children or ():
            for x in c.walk():
                yield x

    def describe(self):
        return '%s%d%s@%d' % (self.cls, self.num, 'c' if self.cons else 'p', self.start)


def parse_header(data, pos, end):
    """-> (cls, num, cons, len_off, content_off, length|-1) or raise RefError('short')/malformed."""
    if pos >= end:
        raise RefError('short:tag')
    b0 = data[pos]
    cls = CLS_REV[b0 & 0xC0]
    cons = bool(b0 & 0x20)
    num = b0 & 0x1f
    p = pos + 1
    if num == 0x1f:
        num = 0
        while True:
            if p >= end:
                raise RefError('short:tag')
            num = (num << 7) | (data[p] & 0x7f)
            more = data[p] & 0x80
            p += 1
            if not more:
                break
    len_off = p
    if p >= end:
        raise RefError('short:length')
    l0 = data[p]
    p += 1
    if l0 < 0x80:
        length = l0
    elif l0 == 0x80:
        length = -1
    elif l0 == 0xff:
        raise RefError('malformed:length-ff')
    else:
        n = l0 & 0x7f
        if p + n > end:
            raise RefError('short:length')
        length = int.from_bytes(data[p:p + n], 'big')
        p += n
    return cls, num, cons, len_off, p, length


def parse_one(data, pos=0, end=None, depth=0, maxdepth=64):
    end = len(data) if end is None else end
    cls, num, cons, len_off, coff, length = parse_header(data, pos, end)
    nd = Node()
    nd.cls, nd.num, nd.cons, nd.start, nd.len_off, nd.content_off = cls, num, cons, pos, len_off, coff
    nd.length_octets = coff - len_off
    nd.depth = depth
    nd.children = None
    if depth > maxdepth:
        raise RefError('malformed:too-deep')
    if length == -1:
        if not cons:
            raise RefError('malformed:indefinite-primitive')
        nd.indef = True
        kids = []
        p = coff
        while True:
            if p + 2 <= end and data[p] == 0 and data[p + 1] == 0:
                break
            if p >= end:
                raise RefError('short:content')
            if p + 1 == end and data[p] == 0:
                raise RefError('short:eoo')
            c = parse_one(data, p, end, depth + 1, maxdepth)
            kids.append(c)
            p = c.end
        nd.children = kids
        nd.content_end = p
        nd.end = p + 2
    else:
        nd.indef = False
        if coff + length > end:
            raise RefError('short:content')
        nd.content_end = coff + length
        nd.end = nd.content_end
        if cons:
            kids = []
            p = coff
            while p < nd.content_end:
                c = parse_one(data, p, nd.content_end, depth + 1, maxdepth)
                kids.append(c)
                p = c.end
            nd.children = kids
    return nd


def tlv(data):
    """Parse a concatenation of TLVs -> list of Node."""
    out = []
    p = 0
    while p < len(data):
        n = parse_one(data, p)
        out.append(n)
        p = n.end
    return out


def classify_offset(nodes, k):
    """Name the structural region byte offset k falls in (for cut-point coverage)."""
    for top in nodes:
        for n in top.walk():
            if n.start <= k < n.len_off:
                return 'in-tag' if k > n.start else 'at-element-start'
            if n.len_off <= k < n.content_off:
                return 'in-length' if k > n.len_off else 'after-tag'
            if n.indef and n.content_end <= k < n.end:
                return 'in-eoo' if k > n.content_end else 'before-eoo'
            if k == n.content_off and not n.cons and n.cls == 'U' and n.num == 3 and n.content_end > n.content_off:
                return 'after-length'
            if k == n.content_off + 1 and not n.cons and n.cls == 'U' and n.num == 3:
                return 'after-bitstring-pad-octet'
            if k == n.content_off and not n.children:
                return 'after-length'
    return 'in-content'


# ------------------------------------------------------------------ guided reader

class Reader(object):
    def __init__(self, rules='BER'):
        self.rules = rules
        self.trace = None

    def read(self, T, data):
        nodes = [parse_one(data, 0)]
        n = nodes[0]
        v = self.dec(T, n, data)
        return v, data[n.end:]

    # -- which tags may start T
    def starts(self, T, node):
        tags = U.outer_tags(T)
        return U.WILD in tags or node.tag() in tags

    def dec(self, T, n, data, override=None):
        k = T[0]
        if k == 'tag':
            mode, c, num, inner = T[1:]
            if mode == 'E' or U.is_untagged_open(inner):
                want = override or (c, num)
                if n.tag() != want or not n.cons:
                    raise RefError('tag-mismatch: want explicit %r got %s' % (want, n.describe()))
                if len(n.children) != 1:
                    raise RefError('explicit wrapper must hold exactly one element')
                if self.trace is not None:
                    self.trace.append((n, 'explicit', T))
                return self.dec(inner, n.children[0], data)
            return self.dec(inner, n, data, override or (c, num))
        if k == 'choice':
            for name, a in T[1]:
                if self.starts(a, n):
                    return (name, self.dec(a, n, data))
            raise RefError('no CHOICE alternative for %s' % n.describe())
        if k == 'any':
            if self.trace is not None:
                self.trace.append((n, 'any', T))
            return data[n.start:n.end]
        want = override or ('U', U.univ_tag(T))
        if n.tag() != want:
            raise RefError('tag-mismatch: want %r got %s' % (want, n.describe()))
        if self.trace is not None:
            self.trace.append((n, k, T))
        if k in ('seq', 'set', 'seqof', 'setof'):
            if not n.cons:
                raise RefError('primitive container')
            if k == 'seq':
                return self.dec_seq(T, n, data)
            if k == 'set':
                return self.dec_set(T, n, data)
            return [self.dec(T[1], c, data) for c in n.children]
        if k in U.STRINGISH:
            return self.dec_string(T, n, data)
        if n.cons:
            raise RefError('constructed primitive')
        c = n.content(data)
        if k == 'bool':
            if len(c) != 1:
                raise RefError('BOOLEAN length')
            if self.rules in ('DER', 'CER') and c not in (b'\x00', b'\xff'):
                raise RefError('non-canonical BOOLEAN')
            return c != b'\x00'
        if k in ('int', 'enum'):
            if not c:
                raise RefError('empty INTEGER')
            return int.from_bytes(c, 'big', signed=True)
        if k == 'null':
            if c:
                raise RefError('NULL with content')
            return None
        if k == 'oid':
            return dec_oid(c)
        if k == 'real':
            return dec_real(c)
        raise RefError('unknown kind %s' % k)

    def dec_seq(self, T, n, data):
        out = {}
        kids = list(n.children)
        i = 0
        for name, ft, pres, dv in T[1]:
            if i < len(kids) and self.starts(ft, kids[i]):
                out[name] = self.dec(ft, kids[i], data)
                i += 1
            elif pres == 'opt':
                continue
            elif pres == 'def':
                out[name] = dv
            else:
                raise RefError('missing mandatory %s' % name)
        if i != len(kids):
            raise RefError('excess components')
        return out

    def dec_set(self, T, n, data):
        out = {}
        for c in n.children:
            for name, ft, pres, dv in T[1]:
                if self.starts(ft, c):
                    if name in out:
                        raise RefError('duplicate SET member')
                    out[name] = self.dec(ft, c, data)
                    break
            else:
                raise RefError('unknown SET member %s' % c.describe())
        for name, ft, pres, dv in T[1]:
            if name not in out:
                if pres == 'def':
                    out[name] = dv
                elif pres == 'req':
                    raise RefError('missing mandatory %s' % name)
        return out

    def collect(self, n, data, segnum):
        """Flatten (nested) segments -> list of primitive contents."""
        if not n.cons:
            return [n.content(data)]
        out = []
        for c in n.children:
            if c.tag() != ('U', segnum):
                raise RefError('bad segment tag %s' % c.describe())
            out += self.collect(c, data, segnum)
        return out

    def dec_string(self, T, n, data):
        k = T[0]
        if k == 'bits':
            if n.cons:
                parts = self.collect(n, data, 3)
                nbits = 0
                x = 0
                for i, p_ in enumerate(parts):
                    if not p_:
                        raise RefError('BIT STRING segment without pad octet')
                    pad = p_[0]
                    if pad > 7 or (pad and i != len(parts) - 1) or (pad and len(p_) == 1):
                        raise RefError('bad BIT STRING padding')
                    bl = (len(p_) - 1) * 8 - pad
                    x = (x << bl) | (int.from_bytes(p_[1:], 'big') >> pad)
                    nbits += bl
                return (nbits, x)
            c = n.content(data)
            if not c:
                raise RefError('empty BIT STRING content')
            pad = c[0]
            if pad > 7 or (pad and len(c) == 1):
                raise RefError('bad BIT STRING padding')
            nbits = (len(c) - 1) * 8 - pad
            return (nbits, int.from_bytes(c[1:], 'big') >> pad)
        raw = b''.join(self.collect(n, data, 4)) if n.cons else n.content(data)
        if k == 'octs':
            return raw
        try:
            return raw.decode(U.text_codec(T))
        except UnicodeDecodeError:
            raise RefError('text does not decode')


def dec_oid(c):
    if not c:
        raise RefError('empty OID')
    if c[-1] & 0x80:
        raise RefError('truncated OID arc')
    arcs = []
    x = 0
    start = True
    for b in c:
        if start and b == 0x80:
            raise RefError('OID arc with leading 0x80')
        start = False
        x = (x << 7) | (b & 0x7f)
        if not b & 0x80:
            arcs.append(x)
            x = 0
            start = True
    f = arcs[0]
    if f < 40:
        head = (0, f)
    elif f < 80:
        head = (1, f - 40)
    else:
        head = (2, f - 80)
    return head + tuple(arcs[1:])


def dec_real(c):
    if not c:
        return 0
    fo = c[0]
    if fo & 0x80:
        n = (fo & 3) + 1
        rest = c[1:]
        if n == 4:
            if not rest:
                raise RefError('REAL exponent length')
            n = rest[0]
            rest = rest[1:]
        eo, mo = rest[:n], rest[n:]
        if len(eo) != n or not n or not mo:
            raise RefError('REAL truncated')
        e = int.from_bytes(eo, 'big', signed=True)
        b = (fo >> 4) & 3
        if b == 3:
            raise RefError('REAL reserved base')
        F = (fo >> 2) & 3
        m = int.from_bytes(mo, 'big')
        if m == 0:
            return 0
        e = e * (1, 3, 4)[b] + F
        if fo & 0x40:
            m = -m
        return U.real_norm(('r', m, 2, e))
    if fo & 0x40:
        if fo == 0x40:
            return 'inf'
        if fo == 0x41:
            return '-inf'
        raise RefError('REAL special value')
    nr = fo & 0x3f
    if nr not in (1, 2, 3):
        raise RefError('REAL NR form')
    s = c[1:].decode('ascii', 'replace').strip()
    return parse_decimal(s)


def parse_decimal(s):
    import re
    mt = re.match(r'^([+-]?)(\d*)(?:[.,](\d*))?(?:[eE]([+-]?\d+))?$', s)
    if not mt or not (mt.group(2) or mt.group(3)):
        raise RefError('bad decimal REAL %r' % s)
    sign, ip, fp, ex = mt.groups()
    fp = fp or ''
    m = int((ip or '0') + fp)
    e = int(ex or 0) - len(fp)
    if m == 0:
        return 0
    if sign == '-':
        m = -m
    return U.real_norm(('r', m, 10, e))


def read(T, data, rules='BER'):
    return Reader(rules).read(T, data)


# ------------------------------------------------------------------ CER form rules named by C03

def cer_form_violations(data, T):
    """Check the CER form rules named by the C03 statement on a CER output of a value of T, by a typed
    walk (so implicit tags are seen through and ANY contents, which are opaque, are skipped):
    indefinite length exactly for constructed encodings, 1000-octet string segments, sorted SET OF,
    FF for TRUE.  Returns a list of violation names."""
    out = []
    try:
        leaves = typed_leaves(T, data)
    except (RefError, IndexError, TypeError) as e:
        return ['unparseable:%s' % (e,)]
    for n, kind, t in leaves:
        if kind == 'any':
            continue
        if n.cons and not n.indef:
            out.append('definite-constructed:%s' % kind)
        if kind == 'bool':
            if n.content(data) not in (b'\x00', b'\xff'):
                out.append('boolean-not-00-ff')
        elif kind in U.STRINGISH:
            if n.cons:
                kids = n.children
                for i, c in enumerate(kids):
                    if c.cons:
                        out.append('nested-segment:%s' % kind)
                        continue
                    ln = c.content_end - c.content_off
                    if i != len(kids) - 1 and ln != 1000:
                        out.append('segment-not-1000:%s(len=%d)' % (kind, ln))
                    elif ln > 1000:
                        out.append('segment-over-1000:%s(len=%d)' % (kind, ln))
                total = sum(c.content_end - c.content_off for c in kids)
                if total <= 1000:
                    out.append('needless-segmentation:%s' % kind)
            elif n.content_end - n.content_off > 1000:
                out.append('primitive-string-over-1000:%s' % kind)
        elif kind == 'setof':
            encs = [data[c.start:c.end] for c in n.children]
            mx = max([len(e) for e in encs] or [0])
            keyed = [e.ljust(mx, b'\x00') for e in encs]
            if keyed != sorted(keyed):
                out.append('setof-unsorted')
    return sorted(set(out))


STRING_TAGS = {3, 4, 7, 12, 18, 19, 20, 21, 22, 23, 24, 25, 26, 27, 28, 30}


# ------------------------------------------------------------------ single-element rewrites (C15)

def rebuild(n, data, replace):
    """Re-serialise node n (definite parts get minimal definite lengths) with `replace` = {id(node): bytes}."""
    if id(n) in replace:
        return replace[id(n)]
    if not n.cons:
        return data[n.start:n.end]
    content = b''.join(rebuild(c, data, replace) for c in n.children)
    if n.indef:
        return ident(n.cls, n.num, True) + b'\x80' + content + b'\x00\x00'
    return ident(n.cls, n.num, True) + length_min(len(content)) + content


def rewrites(T, data):
    """Yield (kind, depth, tagging, new_bytes) for every single-element non-canonical rewrite of the DER
    encoding `data` of a value of T, located by a typed walk (implicit tags are seen through; the opaque
    contents of ANY values are left alone):
       indef          one constructed element (container or explicit wrapper) gets indefinite length
       segment-<k>    one primitive string element of kind k becomes a constructed encoding of two segments
       bool           one BOOLEAN FF becomes another non-zero octet
    tagging tells how the rewritten element is tagged: universal / implicit / explicit-wrapper."""
    top = parse_one(data, 0)
    leaves = typed_leaves(T, data, 'DER')
    # typed_leaves parses again: map by offset onto the nodes of `top`
    by_start = {}
    for n in top.walk():
        by_start.setdefault((n.start, n.end), n)
    for ln, kind, t in leaves:
        n = by_start[(ln.start, ln.end)]
        if kind == 'any':
            continue
        tagging = 'explicit-wrapper' if kind == 'explicit' else ('universal' if n.cls == 'U' else 'implicit')
        if n.cons:
            content = b''.join(data[c.start:c.end] for c in n.children)
            new = ident(n.cls, n.num, True) + b'\x80' + content + b'\x00\x00'
            yield ('indef', n.depth, tagging, rebuild(top, data, {id(n): new}))
            continue
        c = n.content(data)
        if kind == 'bits':
            pad, body = c[0], c[1:]
            h = len(body) // 2
            # two segments, and the whole string as the single segment of a constructed encoding
            for parts in ([(0, body[:h]), (pad, body[h:])], [(pad, body)]):
                segs = b''.join(ident('U', 3, False) + length_min(1 + len(b)) + bytes([p]) + b for p, b in parts)
                yield ('segment-bits', n.depth, tagging,
                       rebuild(top, data, {id(n): ident(n.cls, n.num, True) + length_min(len(segs)) + segs}))
        elif kind in ('octs', 'char', 'useful'):
            h = len(c) // 2
            # two segments, one segment, three segments; an empty string also as a constructed encoding without any
            # segment (X.690 8.7.3.2: "zero, one or more" - the form is not taken for BIT STRING, where the library
            # and a reading of 8.6.4 refuse it)
            shapes = [[c[:h], c[h:]], [c], [c[:1], c[1:h + 1], c[h + 1:]]]
            if not c:
                shapes.append([])
            for parts in shapes:
                segs = b''.join(ident('U', 4, False) + length_min(len(b)) + b for b in parts)
                yield ('segment-' + kind, n.depth, tagging,
                       rebuild(top, data, {id(n): ident(n.cls, n.num, True) + length_min(len(segs)) + segs}))
        elif kind == 'bool' and c == b'\xff':
            for alt in (b'\x01', b'\x7f', b'\xfe'):
                yield ('bool', n.depth, tagging,
                       rebuild(top, data, {id(n): ident(n.cls, n.num, False) + b'\x01' + alt}))


def typed_leaves(T, data, rules='BER'):
    """Typed walk of an encoding of a T value: list of (node, kind, T) for every element, kind being the
    base type kind, 'explicit' for explicit-tag wrappers and 'any' for opaque ANY values (not descended).
    Used to locate strings/booleans under implicit tags.  Raises RefError if data is not a value of T."""
    r = Reader(rules)
    r.trace = []
    r.read(T, data)
    return r.trace


# ------------------------------------------------------------------ self-check vectors (X.690 examples)

VECTORS = [
    # (T, v, DER hex)
    (('bool',), True, '0101ff'),
    (('int',), 0, '020100'),
    (('int',), 127, '02017f'),
    (('int',), 128, '02020080'),
    (('int',), -128, '020180'),
    (('int',), -129, '0202ff7f'),
    (('int',), 256, '02020100'),
    (('bits',), (44, 0x0A3B5F291CD), '0307040a3b5f291cd0'),
    (('null',), None, '0500'),
    (('oid',), (2, 100, 3), '0603813403'),
    (('oid',), (1, 2, 840, 113549), '06062a864886f70d'),
    (('char', 'VisibleString'), 'Jones', '1a054a6f6e6573'),
    (('tag', 'I', 'A', 3, ('char', 'VisibleString')), 'Jones', '43054a6f6e6573'),
    (('tag', 'E', 'C', 2, ('tag', 'I', 'A', 3, ('char', 'VisibleString'))), 'Jones', 'a20743054a6f6e6573'),
    (('tag', 'I', 'A', 7, ('tag', 'E', 'C', 2, ('tag', 'I', 'A', 3, ('char', 'VisibleString')))), 'Jones',
     '670743054a6f6e6573'),
    (('seq', (('name', ('char', 'IA5String'), 'req', None), ('ok', ('bool',), 'req', None))),
     {'name': 'Smith', 'ok': True}, '300a1605536d6974680101ff'),
    (('real',), 0, '0900'),
    (('real',), 'inf', '090140'),
    (('real',), '-inf', '090141'),
    (('real',), ('r', 1, 2, 0), '0903800001'),
    (('real',), ('r', 5, 2, -1), '090380ff05'),   # 2.5
    (('real',), ('r', -3, 2, 4), '0903c00403'),
    (('real',), ('r', 123, 10, 11), '090803' + b'123.E11'.hex()),
    (('real',), ('r', 5, 10, 0), '090603' + b'5.E+0'.hex()),
    (('tag', 'I', 'C', 31, ('int',)), 1, '9f1f0101'),
    (('tag', 'E', 'P', 128, ('null',)), None, 'ff81000' + '20500'),
    (('setof', ('int',)), [3, 1, 2], '3109020101020102020103'),
    (('set', (('a', ('tag', 'I', 'C', 1, ('int',)), 'req', None), ('b', ('bool',), 'req', None))),
     {'a': 5, 'b': False}, '3106010100810105'),
]


def selfcheck():
    """Run the transcribed vectors + writer/reader round trip.  Returns number of checks; raises on failure."""
    n = 0
    for T, v, hx in VECTORS:
        got = der(T, v)
        if got.hex() != hx:
            raise AssertionError('reference DER vector mismatch: %r %r -> %s want %s' % (T, v, got.hex(), hx))
        rv, rest = read(T, got, 'DER')
        if rest or U.canon(T, rv) != U.canon(T, v):
            raise AssertionError('reference reader mismatch on %r' % (T,))
        n += 2
    return n
