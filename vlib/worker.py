"""Worker: runs one shard of one property in its own process and writes a JSON result."""
import faulthandler
import importlib
import json
import sys

from . import harness as H


def main(argv):
    prop, tier, seed, shard_json, out = argv
    faulthandler.enable()
    H.setup_paths()
    mod = importlib.import_module('vlib.props.' + prop.lower())
    shard = json.loads(shard_json)
    res = mod.run_shard(shard, tier, int(seed))
    with open(out, 'w') as f:
        json.dump(res.to_json(), f, default=str)
    return 0


if __name__ == '__main__':
    sys.exit(main(sys.argv[1:]))
