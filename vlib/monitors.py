"""In-situ monitors built on sys.monitoring (DESIGN 2.5): suspension-site coverage and step counting."""
import ast
import os
import sys
import threading

from . import harness as H

STREAM_FILES = ('codec/ber/decoder.py', 'codec/streaming.py', 'codec/cer/decoder.py', 'codec/der/decoder.py')


def repo_file(rel):
    return os.path.join(H.REPO, 'pyasn1', rel)


def static_yield_sites():
    """All (file, line) of yield expressions in the streaming-relevant modules (the denominator)."""
    out = set()
    for rel in STREAM_FILES:
        with open(repo_file(rel)) as f:
            tree = ast.parse(f.read())
        for node in ast.walk(tree):
            # yields that can hand an underrun object upwards: `yield x` guarded by
            # `isinstance(x, SubstrateUnderrunError)`, or `yield error.SubstrateUnderrunError(...)`
            if isinstance(node, ast.If) and 'SubstrateUnderrunError' in ast.dump(node.test):
                for sub in node.body:
                    for y in ast.walk(sub):
                        if isinstance(y, ast.Yield):
                            out.add('%s:%d' % (rel, y.lineno))
            if isinstance(node, ast.Yield) and node.value is not None and \
                    'SubstrateUnderrunError' in ast.dump(node.value):
                out.add('%s:%d' % (rel, node.lineno))
    return out


class YieldSites(object):
    """Records at which yield statements of the decoder a generator was suspended while handing an
    underrun object upwards (PY_YIELD events of sys.monitoring)."""

    TOOL = 4

    def __init__(self):
        from pyasn1 import error
        self.underrun_cls = error.SubstrateUnderrunError
        self.sites = {}
        self.files = dict((os.path.realpath(repo_file(rel)), rel) for rel in STREAM_FILES)
        self.line_cache = {}
        self.active = False

    def start(self):
        mon = sys.monitoring
        try:
            mon.use_tool_id(self.TOOL, 'verif-yield-sites')
        except ValueError:
            pass
        mon.register_callback(self.TOOL, mon.events.PY_YIELD, self._on_yield)
        mon.set_events(self.TOOL, mon.events.PY_YIELD)
        self.active = True

    def stop(self):
        if not self.active:
            return
        mon = sys.monitoring
        mon.set_events(self.TOOL, 0)
        mon.register_callback(self.TOOL, mon.events.PY_YIELD, None)
        try:
            mon.free_tool_id(self.TOOL)
        except Exception:
            pass
        self.active = False

    def _on_yield(self, code, offset, retval):
        rel = self.files.get(code.co_filename)
        if rel is None:
            rp = os.path.realpath(code.co_filename)
            rel = self.files.get(rp)
            if rel is None:
                return sys.monitoring.DISABLE
            self.files[code.co_filename] = rel
        if isinstance(retval, self.underrun_cls):
            key = (code, offset)
            line = self.line_cache.get(key)
            if line is None:
                line = None
                for start, end, ln in code.co_lines():
                    if start <= offset < end:
                        line = ln
                        break
                self.line_cache[key] = line
            site = '%s:%s' % (rel, line)
            self.sites[site] = self.sites.get(site, 0) + 1
        return None


class StepCounter(object):
    """Logical clock: counts PY_START / PY_RESUME / PY_THROW events in code of the tree under test.
    raise_at: when the count passes the budget, StepBudgetExceeded (a BaseException) is raised inside the
    observed call."""

    TOOL = 3

    class StepBudgetExceeded(BaseException):
        pass

    def __init__(self):
        self.count = 0
        self.budget = None
        self.prefix = os.path.realpath(os.path.join(H.REPO, 'pyasn1')) + os.sep
        self.active = False
        self._known = {}

    def start(self):
        mon = sys.monitoring
        try:
            mon.use_tool_id(self.TOOL, 'verif-steps')
        except ValueError:
            pass
        ev = mon.events.PY_START | mon.events.PY_RESUME | mon.events.PY_THROW
        for e in (mon.events.PY_START, mon.events.PY_RESUME):
            mon.register_callback(self.TOOL, e, self._on_event)
        mon.register_callback(self.TOOL, mon.events.PY_THROW, self._on_throw)
        mon.set_events(self.TOOL, ev)
        self.active = True

    def stop(self):
        if not self.active:
            return
        mon = sys.monitoring
        mon.set_events(self.TOOL, 0)
        for e in (mon.events.PY_START, mon.events.PY_RESUME, mon.events.PY_THROW):
            mon.register_callback(self.TOOL, e, None)
        try:
            mon.free_tool_id(self.TOOL)
        except Exception:
            pass
        self.active = False

    def _mine(self, code):
        k = self._known.get(code.co_filename)
        if k is None:
            k = os.path.realpath(code.co_filename).startswith(self.prefix)
            self._known[code.co_filename] = k
        return k

    def _on_event(self, code, offset):
        if not self._mine(code):
            return sys.monitoring.DISABLE
        self.count += 1
        if self.budget is not None and self.count > self.budget:
            self.budget = None
            raise self.StepBudgetExceeded()

    def _on_throw(self, code, offset, exc):
        if self._mine(code):
            self.count += 1

    def reset(self, budget=None):
        self.count = 0
        self.budget = budget


class CpuBudgetExceeded(BaseException):
    """Raised inside the observed call by cpu_guard (a BaseException: library `except Exception` cannot swallow it)."""


class cpu_guard(object):
    """Bound the CPU time (not the wall-clock time) one observed call may burn: ITIMER_PROF counts only while this
    process is executing (user or system mode), so load on the machine does not move it.  The logical step counter cannot see work
    done inside a single C call (a gigantic integer power, say); this can, because CPython's long arithmetic polls for
    signals.  Main thread only; nests by restoring the previous timer."""

    def __init__(self, seconds):
        self.seconds = seconds

    def _fire(self, signum, frame):
        raise CpuBudgetExceeded('more than %s CPU seconds inside one call' % self.seconds)

    def __enter__(self):
        import signal
        self._signal = signal
        self._old_handler = signal.signal(signal.SIGPROF, self._fire)
        self._old_timer = signal.setitimer(signal.ITIMER_PROF, self.seconds)
        return self

    def __exit__(self, *exc):
        signal = self._signal
        signal.setitimer(signal.ITIMER_PROF, 0)
        signal.signal(signal.SIGPROF, self._old_handler)
        if self._old_timer and self._old_timer[0] > 0:
            signal.setitimer(signal.ITIMER_PROF, *self._old_timer)
        return False



class Preempt(object):
    """Deterministic two-thread schedules at line granularity inside the library (C12).

    run(fa, fb, k, j): thread A executes fa until its k-th LINE event in library code and is held there; thread B
    executes fb - to completion when j is None, else until its j-th LINE event, where it is held until A has
    finished - then the held thread goes on.  Exactly one of the two threads is runnable at any time, so the
    schedule is decided by (k, j) alone and can be replayed."""
    TOOL = 2

    def __init__(self, prefix, timeout=60.0):
        self.prefix = prefix
        self.timeout = timeout
        self.st = None
        self.owned = False

    def install(self):
        mon = sys.monitoring
        mon.use_tool_id(self.TOOL, 'verif-preempt')
        self.owned = True
        mon.register_callback(self.TOOL, mon.events.LINE, self._on_line)
        mon.set_events(self.TOOL, mon.events.LINE)

    def uninstall(self):
        mon = sys.monitoring
        if self.owned:
            mon.set_events(self.TOOL, 0)
            mon.register_callback(self.TOOL, mon.events.LINE, None)
            mon.free_tool_id(self.TOOL)
            self.owned = False

    def _on_line(self, code, line):
        if not code.co_filename.startswith(self.prefix):
            return sys.monitoring.DISABLE
        st = self.st
        if st is None:
            return None
        t = threading.get_ident()
        if t == st['a_id']:
            st['a_n'] += 1
            if st['a_n'] == st['k'] and not st['b_started']:
                st['b_started'] = True
                st['tb'].start()
                st['b_paused'].wait(self.timeout)
        elif t == st['b_id']:
            st['b_n'] += 1
            if st['j'] is not None and st['b_n'] == st['j'] and not st['a_done'].is_set():
                st['b_paused'].set()
                st['a_done'].wait(self.timeout)
        return None

    @staticmethod
    def _outcome(fn):
        try:
            return ('ok', fn())
        except Exception as ex:
            return ('raised', type(ex).__name__)

    def count(self, fn):
        """-> (number of LINE events fn causes in library code when run alone in a thread, its outcome)"""
        st = {'a_id': None, 'b_id': None, 'a_n': 0, 'b_n': 0, 'k': -1, 'j': None, 'b_started': True,
              'a_done': threading.Event(), 'b_paused': threading.Event(), 'tb': None}
        box = {}

        def a():
            st['a_id'] = threading.get_ident()
            self.st = st
            try:
                box['a'] = self._outcome(fn)
            finally:
                self.st = None
        t = threading.Thread(target=a)
        t.start()
        t.join(self.timeout)
        return st['a_n'], box.get('a')

    def run(self, fa, fb, k, j=None):
        """-> (outcome of fa, outcome of fb, 'preempted' | 'not-preempted' | 'timeout')"""
        box = {}
        st = {'a_id': None, 'b_id': None, 'a_n': 0, 'b_n': 0, 'k': k, 'j': j, 'b_started': False,
              'a_done': threading.Event(), 'b_paused': threading.Event(), 'tb': None}

        def b():
            st['b_id'] = threading.get_ident()
            try:
                box['b'] = self._outcome(fb)
            finally:
                st['b_paused'].set()

        def a():
            st['a_id'] = threading.get_ident()
            self.st = st
            try:
                box['a'] = self._outcome(fa)
            finally:
                st['a_done'].set()
        st['tb'] = threading.Thread(target=b)
        ta = threading.Thread(target=a)
        ta.start()
        ta.join(self.timeout)
        info = 'preempted'
        if ta.is_alive():
            self.st = None
            return None, None, 'timeout'
        if not st['b_started']:
            info = 'not-preempted'
            st['b_started'] = True
            st['tb'].start()
        st['tb'].join(self.timeout)
        self.st = None
        if st['tb'].is_alive():
            return None, None, 'timeout'
        return box.get('a'), box.get('b'), info
