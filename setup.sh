#!/bin/sh
# Offline setup: icontract (pure python, from the local wheelhouse) next to the harness.  Everything else is stdlib.
cd "$(dirname "$0")" || exit 1
if [ ! -d .deps/icontract ]; then
  /venv/bin/pip install --quiet --no-index --find-links /opt/veriftools/wheels --target .deps icontract >/dev/null 2>&1 || echo "icontract not installed (optional)"
fi
/venv/bin/python -c "import sys; sys.path.insert(0,'.'); from vlib import refx690; print('reference self-check vectors:', refx690.selfcheck())"
